; C20 registry key, table names without "|" (DynamoDB table names are [a-zA-Z0-9_.-]+). By the contracts of
; hashExpressionKey / AddMatcher / AddUpdater / getMatcher / Update (proved over the real bodies) the registry key is
; table ++ "|" ++ wsnorm(expression). Two registrations share a key only if table and normalised text are equal:
(set-logic ALL)
(declare-const t1 String)
(declare-const n1 String)
(declare-const t2 String)
(declare-const n2 String)
(define-fun nkey ((t String) (n String)) String (str.++ t "|" n))
(assert (not (str.contains t1 "|")))
(assert (not (str.contains t2 "|")))
(assert (= (nkey t1 n1) (nkey t2 n2)))
(assert (or (not (= t1 t2)) (not (= n1 n2))))
(check-sat)
