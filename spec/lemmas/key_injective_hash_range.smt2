; C13 injectivity, hash+range schema. By keySchema.GetKey:post (proved over the real body) the key string is
; text(hash) ++ "." ++ text(range). Injectivity of that rendering:
(set-logic ALL)
(set-option :produce-models true)
(declare-const h1 String)
(declare-const r1 String)
(declare-const h2 String)
(declare-const r2 String)
(define-fun key ((h String) (r String)) String (str.++ h "." r))
(assert (= (key h1 r1) (key h2 r2)))
(assert (or (not (= h1 h2)) (not (= r1 r2))))
; keep the witness printable
(assert (str.in_re h1 (re.* (re.union (re.range "a" "z") (str.to_re ".")))))
(assert (str.in_re r1 (re.* (re.union (re.range "a" "z") (str.to_re ".")))))
(assert (str.in_re h2 (re.* (re.union (re.range "a" "z") (str.to_re ".")))))
(assert (str.in_re r2 (re.* (re.union (re.range "a" "z") (str.to_re ".")))))
(assert (and (>= (str.len h1) 1) (>= (str.len r1) 1) (>= (str.len h2) 1) (>= (str.len r2) 1)))
(check-sat)
(get-value (h1 r1 h2 r2))
