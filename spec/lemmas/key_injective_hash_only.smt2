; C13 injectivity, hash-only schema. By keySchema.GetKey:post (proved over the real body) the key string
; of a hash-only schema with an S/N-typed key attribute IS the attribute's text, so equal keys mean equal texts.
(set-logic ALL)
(declare-const h1 String)
(declare-const h2 String)
(define-fun key ((h String)) String h)
(assert (= (key h1) (key h2)))
(assert (not (= h1 h2)))
(check-sat)
