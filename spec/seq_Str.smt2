; Sequence vocabulary over string arrays: sortedS, bagS, indS, totalS, lemma library.
; A = (Array Int Str)   B = (Array Str Int)
(define-fun sortedS ((a (Array Int Str)) (lo Int) (hi Int)) Bool
  (forall ((i Int) (j Int)) (! (=> (and (<= lo i) (<= i j) (< j hi)) (<= (so (select a i)) (so (select a j)))) :pattern ((select a i) (select a j)))))
(declare-fun bagS ((Array Int Str) Int Int) (Array Str Int))
(define-fun K0S () (Array Str Int) ((as const (Array Str Int)) 0))
; B0 / B1: definition by unfolding the last element
(assert (forall ((a (Array Int Str)) (lo Int) (hi Int)) (! (=> (<= hi lo) (= (bagS a lo hi) K0S)) :pattern ((bagS a lo hi)))))
; B1 is only instantiated between bag terms that already exist (no matching loop)
(assert (forall ((a (Array Int Str)) (lo Int) (hi Int) (h1 Int)) (! (=> (and (<= lo h1) (= hi (+ h1 1))) (= (bagS a lo hi) (store (bagS a lo h1) (select a h1) (+ 1 (select (bagS a lo h1) (select a h1)))))) :pattern ((bagS a lo hi) (bagS a lo h1)))))
; APPEND: writing the last position of the range
(assert (forall ((a (Array Int Str)) (lo Int) (hi Int) (i Int) (v Str)) (! (=> (and (<= lo i) (= hi (+ i 1))) (= (bagS (store a i v) lo hi) (store (bagS a lo i) v (+ 1 (select (bagS a lo i) v))))) :pattern ((bagS (store a i v) lo hi)))))
; non-negativity
(assert (forall ((a (Array Int Str)) (lo Int) (hi Int) (x Str)) (! (>= (select (bagS a lo hi) x) 0) :pattern ((select (bagS a lo hi) x)))))
; FR: a write outside [lo,hi) does not matter
(assert (forall ((a (Array Int Str)) (lo Int) (hi Int) (i Int) (v Str)) (! (=> (or (< i lo) (>= i hi)) (= (bagS (store a i v) lo hi) (bagS a lo hi))) :pattern ((bagS (store a i v) lo hi)))))
; UPD: a write inside [lo,hi)
(assert (forall ((a (Array Int Str)) (lo Int) (hi Int) (i Int) (v Str)) (! (=> (and (<= lo i) (< i hi))
   (= (bagS (store a i v) lo hi)
      (store (store (bagS a lo hi) (select a i) (- (select (bagS a lo hi) (select a i)) 1)) v
             (+ 1 (select (store (bagS a lo hi) (select a i) (- (select (bagS a lo hi) (select a i)) 1)) v)))))
   :pattern ((bagS (store a i v) lo hi)))))
; EXT (skolemised): arrays that agree on [lo,hi) have the same bag
(declare-fun bdiffS ((Array Int Str) (Array Int Str) Int Int) Int)
(assert (forall ((a (Array Int Str)) (b (Array Int Str)) (lo Int) (hi Int)) (! (or (= (bagS a lo hi) (bagS b lo hi))
   (and (<= lo (bdiffS a b lo hi)) (< (bdiffS a b lo hi) hi) (not (= (select a (bdiffS a b lo hi)) (select b (bdiffS a b lo hi))))))
   :pattern ((bagS a lo hi) (bagS b lo hi)))))
; L1: an element of the range occurs at least once
(assert (forall ((a (Array Int Str)) (lo Int) (hi Int) (i Int)) (! (=> (and (<= lo i) (< i hi)) (>= (select (bagS a lo hi) (select a i)) 1)) :pattern ((bagS a lo hi) (select a i)))))
; L2: a value with positive multiplicity has a witness position
(declare-fun bwitS ((Array Int Str) Int Int Str) Int)
(assert (forall ((a (Array Int Str)) (lo Int) (hi Int) (x Str)) (! (=> (>= (select (bagS a lo hi) x) 1)
   (and (<= lo (bwitS a lo hi x)) (< (bwitS a lo hi x) hi) (= (select a (bwitS a lo hi x)) x)))
   :pattern ((select (bagS a lo hi) x)))))
; L3: two positions with the same value give multiplicity >= 2
(assert (forall ((a (Array Int Str)) (lo Int) (hi Int) (i Int) (j Int)) (! (=> (and (<= lo i) (< i j) (< j hi) (= (select a i) (select a j))) (>= (select (bagS a lo hi) (select a i)) 2)) :pattern ((bagS a lo hi) (select a i) (select a j)))))
; SPLICE (skolemised): b is a with position p removed
(declare-fun bspS ((Array Int Str) (Array Int Str) Int Int Int) Int)
(assert (forall ((a (Array Int Str)) (b (Array Int Str)) (lo Int) (hi Int) (h1 Int) (p Int)) (! (=> (and (<= lo p) (< p hi) (= h1 (- hi 1)))
   (or (= (bagS b lo h1) (store (bagS a lo hi) (select a p) (- (select (bagS a lo hi) (select a p)) 1)))
       (and (<= lo (bspS a b lo hi p)) (< (bspS a b lo hi p) h1)
            (not (= (select b (bspS a b lo hi p)) (ite (< (bspS a b lo hi p) p) (select a (bspS a b lo hi p)) (select a (+ (bspS a b lo hi p) 1))))))))
   :pattern ((bagS b lo h1) (bagS a lo hi) (select a p)))))
; total number of elements
(declare-fun totalS ((Array Str Int)) Int)
(assert (= (totalS K0S) 0))
(assert (forall ((b (Array Str Int)) (x Str) (v Int)) (! (= (totalS (store b x v)) (+ (- (totalS b) (select b x)) v)) :pattern ((totalS (store b x v))))))
(assert (forall ((a (Array Int Str)) (lo Int) (hi Int)) (! (= (totalS (bagS a lo hi)) (ite (<= lo hi) (- hi lo) 0)) :pattern ((totalS (bagS a lo hi))))))
; indicator of a key set
(declare-fun indS ((Array Str Bool)) (Array Str Int))
(assert (forall ((s (Array Str Bool)) (x Str)) (! (= (select (indS s) x) (ite (select s x) 1 0)) :pattern ((select (indS s) x)))))
(assert (forall ((s (Array Str Bool))) (! (= (totalS (indS s)) (card$Str s)) :pattern ((totalS (indS s))))))
