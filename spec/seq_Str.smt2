; Sequence vocabulary over string arrays: sortedS, bagS, indS, totalS, lemma library.
; A = (Array Int Str)   B = (Array Str Int)
(define-fun sortedS ((a (Array Int Str)) (lo Int) (hi Int)) Bool
  (forall ((i Int) (j Int)) (! (=> (and (<= lo i) (<= i j) (< j hi)) (<= (so (select a i)) (so (select a j)))) :pattern ((select a i) (select a j)) :qid seq_1)))
(declare-fun bagS ((Array Int Str) Int Int) (Array Str Int))
(define-fun K0S () (Array Str Int) ((as const (Array Str Int)) 0))
; B0 / B1: definition by unfolding the last element
(assert (forall ((a (Array Int Str)) (lo Int) (hi Int)) (! (=> (<= hi lo) (= (bagS a lo hi) K0S)) :pattern ((bagS a lo hi)) :qid seq_2)))
; B1 is only instantiated between bag terms that already exist (no matching loop)
(assert (forall ((a (Array Int Str)) (lo Int) (hi Int) (h1 Int)) (! (=> (and (<= lo h1) (= hi (+ h1 1))) (= (bagS a lo hi) (store (bagS a lo h1) (select a h1) (+ 1 (select (bagS a lo h1) (select a h1)))))) :pattern ((bagS a lo hi) (bagS a lo h1)) :qid seq_3)))
; APPEND: writing the last position of the range
(assert (forall ((a (Array Int Str)) (lo Int) (hi Int) (i Int) (v Str)) (! (=> (and (<= lo i) (= hi (+ i 1))) (= (bagS (store a i v) lo hi) (store (bagS a lo i) v (+ 1 (select (bagS a lo i) v))))) :pattern ((bagS (store a i v) lo hi)) :qid seq_4)))
; non-negativity
(assert (forall ((a (Array Int Str)) (lo Int) (hi Int) (x Str)) (! (>= (select (bagS a lo hi) x) 0) :pattern ((select (bagS a lo hi) x)) :qid seq_5)))
; FR: a write outside [lo,hi) does not matter
(assert (forall ((a (Array Int Str)) (lo Int) (hi Int) (i Int) (v Str)) (! (=> (or (< i lo) (>= i hi)) (= (bagS (store a i v) lo hi) (bagS a lo hi))) :pattern ((bagS (store a i v) lo hi)) :qid seq_6)))
; UPD: a write inside [lo,hi)
(assert (forall ((a (Array Int Str)) (lo Int) (hi Int) (i Int) (v Str)) (! (=> (and (<= lo i) (< i hi))
   (= (bagS (store a i v) lo hi)
      (store (store (bagS a lo hi) (select a i) (- (select (bagS a lo hi) (select a i)) 1)) v
             (+ 1 (select (store (bagS a lo hi) (select a i) (- (select (bagS a lo hi) (select a i)) 1)) v)))))
   :pattern ((bagS (store a i v) lo hi)) :qid seq_7)))
; EXT (skolemised): arrays that agree on [lo,hi) have the same bag
(declare-fun bdiffS ((Array Int Str) (Array Int Str) Int Int) Int)
(assert (forall ((a (Array Int Str)) (b (Array Int Str)) (lo Int) (hi Int)) (! (or (= (bagS a lo hi) (bagS b lo hi))
   (and (<= lo (bdiffS a b lo hi)) (< (bdiffS a b lo hi) hi) (not (= (select a (bdiffS a b lo hi)) (select b (bdiffS a b lo hi))))))
   :pattern ((bagS a lo hi) (bagS b lo hi)) :qid seq_8)))
; L1: an element of the range occurs at least once (without L2 this cannot loop: it creates no new element terms)
(assert (forall ((a (Array Int Str)) (lo Int) (hi Int) (i Int)) (! (=> (and (<= lo i) (< i hi)) (>= (select (bagS a lo hi) (select a i)) 1)) :pattern ((bagS a lo hi) (select a i)) :qid seq_L1)))
; (L2-L3 - witness lemmas - are NOT part of the library: L1 and L2 together form a matching loop.
;  Their only use, "binary search finds an element that occurs", is stated as lemma searchHit and
;  proved separately in /verif/selftest/lemmas/searchHit.smt2.)
; (SPLICE - "b is a with position p removed: bag(b,lo,hi-1) = bag(a,lo,hi) minus a[p]" - is not a general
;  axiom here: as a pattern-driven lemma it forms a matching loop. The encoder states its instance at every
;  copy(s[p:], s[p+1:]) site; the lemma itself is validated in /verif/selftest/lemmas.)
; total number of elements
(declare-fun totalS ((Array Str Int)) Int)
(assert (= (totalS K0S) 0))
(assert (forall ((b (Array Str Int)) (x Str) (v Int)) (! (= (totalS (store b x v)) (+ (- (totalS b) (select b x)) v)) :pattern ((totalS (store b x v))) :qid seq_10)))
(assert (forall ((a (Array Int Str)) (lo Int) (hi Int)) (! (= (totalS (bagS a lo hi)) (ite (<= lo hi) (- hi lo) 0)) :pattern ((totalS (bagS a lo hi))) :qid seq_11)))
; indicator of a key set
(declare-fun indS ((Array Str Bool)) (Array Str Int))
(assert (forall ((s (Array Str Bool)) (x Str)) (! (= (select (indS s) x) (ite (select s x) 1 0)) :pattern ((select (indS s) x)) :qid seq_12)))
(assert (forall ((s (Array Str Bool))) (! (= (totalS (indS s)) (card$Str s)) :pattern ((totalS (indS s))) :qid seq_13)))
; ---- multiset of the values of a string->string map (dom d, values v) -------------------------
(declare-fun bagvS ((Array Str Bool) (Array Str Str)) (Array Str Int))
(assert (forall ((v (Array Str Str))) (! (= (bagvS ((as const (Array Str Bool)) false) v) K0S) :pattern ((bagvS ((as const (Array Str Bool)) false) v)) :qid seq_14)))
(assert (forall ((d (Array Str Bool)) (v (Array Str Str)) (x Str)) (! (>= (select (bagvS d v) x) 0) :pattern ((select (bagvS d v) x)) :qid seq_15)))
; insert / overwrite of key k with value x
(assert (forall ((d (Array Str Bool)) (v (Array Str Str)) (k Str) (x Str)) (! (= (bagvS (store d k true) (store v k x))
   (store (ite (select d k) (store (bagvS d v) (select v k) (- (select (bagvS d v) (select v k)) 1)) (bagvS d v)) x
          (+ 1 (select (ite (select d k) (store (bagvS d v) (select v k) (- (select (bagvS d v) (select v k)) 1)) (bagvS d v)) x))))
   :pattern ((bagvS (store d k true) (store v k x))) :qid seq_16)))
; removal of key k
(assert (forall ((d (Array Str Bool)) (v (Array Str Str)) (k Str)) (! (= (bagvS (store d k false) v)
   (ite (select d k) (store (bagvS d v) (select v k) (- (select (bagvS d v) (select v k)) 1)) (bagvS d v)))
   :pattern ((bagvS (store d k false) v)) :qid seq_17)))
; a present key contributes its value
(assert (forall ((d (Array Str Bool)) (v (Array Str Str)) (k Str)) (! (=> (select d k) (>= (select (bagvS d v) (select v k)) 1)) :pattern ((bagvS d v) (select v k)) :qid seq_18)))
; values outside the domain do not matter (skolemised)
(declare-fun bvdiffS ((Array Str Bool) (Array Str Str) (Array Str Str)) Str)
(assert (forall ((d (Array Str Bool)) (v1 (Array Str Str)) (v2 (Array Str Str))) (! (or (= (bagvS d v1) (bagvS d v2))
   (and (select d (bvdiffS d v1 v2)) (not (= (select v1 (bvdiffS d v1 v2)) (select v2 (bvdiffS d v1 v2))))))
   :pattern ((bagvS d v1) (bagvS d v2)) :qid seq_19)))
(assert (forall ((d (Array Str Bool)) (v (Array Str Str))) (! (= (totalS (bagvS d v)) (card$Str d)) :pattern ((totalS (bagvS d v))) :qid seq_20)))
