package core

// BOUNDED stand-in (not a proof) for the secondary-index path of Table.SearchData, which the contracts do not
// reach (index.startSearch sorts with sort.Slice and a comparator closure; the listing is consumed in lock-step
// with sortedKeys). Bound: every table over the primary keys {a,b,c,d} where each item is absent, has index key
// "x", has index key "y", or has no index key (256 tables); a hash-only global secondary index on attribute g;
// Scan and Query (g = :v) through the index, both directions, Limit in {0,1,2,3}, pages followed through
// LastEvaluatedKey (thorough tier: five primary keys - 1024 tables - and Limit up to 4). Checked: the unpaginated result is exactly the indexed items (of the queried partition) ordered
// by (index key, primary key) in the requested direction; every page has at most Limit items; the pages concatenate to
// the unpaginated result; paging ends within len+2 pages.

import (
	"fmt"
	"os"
	"sort"
	"strings"
	"testing"

	"github.com/truora/minidyn/interpreter"
	"github.com/truora/minidyn/types"
)

func TestVerifBoundedIndexPath(t *testing.T) {
	ids := []string{"a", "b", "c", "d"}
	maxLimit := int64(3)
	if os.Getenv("VERIF_TIER") == "thorough" {
		// thorough tier: five primary keys (1024 tables), Limit up to 4
		ids = append(ids, "e")
		maxLimit = 4
	}
	tables := 1
	for range ids {
		tables *= 4
	}
	hash := "HASH"
	idx := "by-g"
	for code := 0; code < tables; code++ {
		table := NewTable("t")
		table.AttributesDef = map[string]string{"id": "S", "g": "S"}
		table.KeySchema = keySchema{HashKey: "id"}
		table.LangInterpreter = interpreter.Language{}
		pay := "PAY_PER_REQUEST"
		table.BillingMode = &pay
		if err := table.AddGlobalIndexes([]*types.GlobalSecondaryIndex{{IndexName: &idx, KeySchema: []*types.KeySchemaElement{{AttributeName: "g", KeyType: hash}}}}); err != nil {
			t.Fatal(err)
		}
		type ent struct{ g, id string }
		var want []ent
		c := code
		for _, id := range ids {
			k := c % 4
			c /= 4
			if k == 0 {
				continue
			}
			item := map[string]*types.Item{"id": {S: types.ToString(id)}}
			if k == 1 || k == 2 {
				g := "x"
				if k == 2 {
					g = "y"
				}
				item["g"] = &types.Item{S: types.ToString(g)}
				want = append(want, ent{g, id})
			}
			if _, err := table.Put(&types.PutItemInput{Item: item}); err != nil {
				t.Fatalf("table %d: put %s: %v", code, id, err)
			}
		}
		sort.Slice(want, func(i, j int) bool {
			if want[i].g != want[j].g {
				return want[i].g < want[j].g
			}
			return want[i].id < want[j].id
		})
		for _, part := range []string{"", "x", "y"} {
			for _, fwd := range []bool{true, false} {
				var exp []string
				for _, e := range want {
					if part == "" || e.g == part {
						exp = append(exp, e.id)
					}
				}
				if !fwd {
					for i, j := 0, len(exp)-1; i < j; i, j = i+1, j-1 {
						exp[i], exp[j] = exp[j], exp[i]
					}
				}
				mk := func(limit int64, start map[string]*types.Item) QueryInput {
					q := QueryInput{Index: idx, ScanIndexForward: fwd, Limit: limit, ExclusiveStartKey: start}
					if part == "" {
						q.Scan = true
					} else {
						q.KeyConditionExpression = "g = :v"
						q.ExpressionAttributeValues = map[string]*types.Item{":v": {S: types.ToString(part)}}
					}
					return q
				}
				idsOf := func(items []map[string]*types.Item) []string {
					out := []string{}
					for _, it := range items {
						out = append(out, types.StringValue(it["id"].S))
					}
					return out
				}
				name := fmt.Sprintf("table %d partition %q forward=%v", code, part, fwd)
				all, _ := table.SearchData(mk(0, nil))
				if got := strings.Join(idsOf(all), ","); got != strings.Join(exp, ",") {
					t.Fatalf("%s: unpaginated result [%s], want [%s]", name, got, strings.Join(exp, ","))
				}
				for limit := int64(1); limit <= maxLimit; limit++ {
					var got []string
					var start map[string]*types.Item
					pages := 0
					for {
						page, last := table.SearchData(mk(limit, start))
						if int64(len(page)) > limit {
							t.Fatalf("%s limit %d: a page has %d items", name, limit, len(page))
						}
						got = append(got, idsOf(page)...)
						pages++
						if len(last) == 0 {
							break
						}
						if pages > len(want)+2 {
							t.Fatalf("%s limit %d: paging does not end", name, limit)
						}
						start = last
					}
					if strings.Join(got, ",") != strings.Join(exp, ",") {
						t.Fatalf("%s limit %d: pages give [%s], want [%s]", name, limit, strings.Join(got, ","), strings.Join(exp, ","))
					}
				}
			}
		}
	}
}
