package core

// Witness of known finding C04-F1: resuming a paginated read after the item named by LastEvaluatedKey
// was deleted returns nothing, because prepareSearch starts only once it meets a stored key equal to the
// start key. The remaining items positioned after that key are lost.

import (
	"testing"

	"github.com/truora/minidyn/interpreter"
	"github.com/truora/minidyn/types"
)

func TestVerifWitnessC04F1(t *testing.T) {
	table := NewTable("t")
	table.AttributesDef = map[string]string{"id": "S"}
	table.KeySchema = keySchema{HashKey: "id"}
	table.LangInterpreter = interpreter.Language{}
	for _, id := range []string{"a", "b", "c"} {
		if _, err := table.Put(&types.PutItemInput{Item: map[string]*types.Item{"id": {S: types.ToString(id)}}}); err != nil {
			t.Fatal(err)
		}
	}
	page, last := table.SearchData(QueryInput{Limit: 1, Scan: true, ScanIndexForward: true})
	if len(page) != 1 || len(last) == 0 {
		t.Skipf("first page: %d items, last key %v", len(page), last)
	}
	if _, err := table.Delete(&types.DeleteItemInput{Key: map[string]*types.Item{"id": {S: types.ToString("a")}}}); err != nil {
		t.Fatal(err)
	}
	rest, _ := table.SearchData(QueryInput{Scan: true, ScanIndexForward: true, ExclusiveStartKey: last})
	if len(rest) != 2 {
		t.Fatalf("after deleting the boundary item the rest of the scan has %d items, want 2 (b, c)", len(rest))
	}
}
