package core

// Witness of known finding C13-F1: with a hash+range key schema the internal key string joins the two
// texts with "." and is not injective.

import (
	"testing"

	"github.com/truora/minidyn/types"
)

func TestVerifWitnessC13F1(t *testing.T) {
	table := NewTable("t")
	table.AttributesDef = map[string]string{"h": "S", "r": "S"}
	table.KeySchema = keySchema{HashKey: "h", RangeKey: "r"}
	put := func(h, r string) {
		if _, err := table.Put(&types.PutItemInput{Item: map[string]*types.Item{"h": {S: types.ToString(h)}, "r": {S: types.ToString(r)}}}); err != nil {
			t.Fatalf("put: %v", err)
		}
	}
	put("a.b", "c")
	put("a", "b.c")
	if len(table.Data) != 2 {
		t.Fatalf("(\"a.b\",\"c\") and (\"a\",\"b.c\") are stored as %d item(s)", len(table.Data))
	}
}
