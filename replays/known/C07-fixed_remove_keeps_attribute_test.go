package core

import (
	"testing"

	"github.com/truora/minidyn/interpreter"
	"github.com/truora/minidyn/types"
)

// Witness (fixed defect): REMOVE of a top-level attribute left the attribute in the item.
func TestVerifWitnessC07Remove(t *testing.T) {
	table := NewTable("t")
	table.AttributesDef = map[string]string{"id": "S"}
	table.KeySchema = keySchema{HashKey: "id"}
	table.LangInterpreter = interpreter.Language{}
	s := func(v string) *types.Item { return &types.Item{S: types.ToString(v)} }
	if _, err := table.Put(&types.PutItemInput{Item: map[string]*types.Item{"id": s("k"), "a": s("1"), "b": s("2")}}); err != nil {
		t.Fatal(err)
	}
	out, err := table.Update(&types.UpdateItemInput{Key: map[string]*types.Item{"id": s("k")}, UpdateExpression: "REMOVE a"})
	if err != nil {
		t.Fatal(err)
	}
	if _, ok := out["a"]; ok {
		t.Errorf("REMOVE a: attribute a is still present: %v", out["a"])
	}
	if _, ok := table.Data["k"]["a"]; ok {
		t.Errorf("REMOVE a: stored item still has attribute a")
	}
}
