package interpreter

// Witness of known finding C20-F1: the registry key is table + "|" + expression text, so a table whose name contains
// "|" shares keys with another table (("a|b", "c") and ("a", "b|c")).

import (
	"errors"
	"testing"

	"github.com/truora/minidyn/types"
)

func TestVerifWitnessC20F1(t *testing.T) {
	n := NewNativeInterpreter()
	fired := false
	n.AddUpdater("a|b", "c", func(item, vals map[string]*types.Item) { fired = true })
	err := n.Update(UpdateInput{TableName: "a", Expression: "b|c", Item: map[string]*types.Item{}})
	if fired || !errors.Is(err, ErrUnsupportedFeature) {
		t.Fatalf("updater registered for table \"a|b\" expression \"c\" fired for table \"a\" expression \"b|c\"")
	}
}
