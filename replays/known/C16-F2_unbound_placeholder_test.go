package client

// Witness of known finding C16-F2: a :value placeholder that was never supplied evaluates to "undefined"
// instead of being rejected.

import (
	"context"
	"testing"

	"github.com/aws/aws-sdk-go-v2/aws"
	"github.com/aws/aws-sdk-go-v2/service/dynamodb"
)

func TestVerifWitnessC16F2(t *testing.T) {
	c := NewClient()
	if err := AddTable(context.Background(), c, "things", "id", ""); err != nil {
		t.Fatal(err)
	}
	_, err := c.Scan(context.Background(), &dynamodb.ScanInput{
		TableName:        aws.String("things"),
		FilterExpression: aws.String("id = :never_supplied"),
	})
	if err == nil {
		t.Fatalf("a filter using the undefined placeholder :never_supplied was accepted")
	}
}
