package client

import (
	"testing"

	"github.com/aws/aws-sdk-go/aws"
	"github.com/aws/aws-sdk-go/service/dynamodb"
)

// Witness of known finding C14-F2: the SDK v1 mappers copy attribute values field by field, so the stored item shares
// every string/number/bool pointer and every slice with the caller's input (and with what reads return).
func TestVerifWitnessC14F2(t *testing.T) {
	c := NewClient()
	if err := AddTable(c, "tbl", "id", ""); err != nil {
		t.Fatal(err)
	}
	name := aws.String("original")
	_, err := c.PutItem(&dynamodb.PutItemInput{TableName: aws.String("tbl"), Item: map[string]*dynamodb.AttributeValue{
		"id": {S: aws.String("a")}, "name": {S: name}}})
	if err != nil {
		t.Fatal(err)
	}
	*name = "tampered" // the caller reuses its variable after the call returned
	out, err := c.GetItem(&dynamodb.GetItemInput{TableName: aws.String("tbl"), Key: map[string]*dynamodb.AttributeValue{"id": {S: aws.String("a")}}})
	if err != nil {
		t.Fatal(err)
	}
	if got := aws.StringValue(out.Item["name"].S); got != "original" {
		t.Fatalf("stored string changed through the caller's pointer: %q", got)
	}
}
