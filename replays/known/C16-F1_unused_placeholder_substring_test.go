package client

// Witness of known finding C16-F1: an expression attribute value that no expression uses is accepted
// when its name is a prefix of a name that is used (":a" versus ":ab"): the check is a substring test.

import (
	"context"
	"testing"

	"github.com/aws/aws-sdk-go-v2/aws"
	"github.com/aws/aws-sdk-go-v2/service/dynamodb"
	"github.com/aws/aws-sdk-go-v2/service/dynamodb/types"
)

func TestVerifWitnessC16F1(t *testing.T) {
	c := NewClient()
	if err := AddTable(context.Background(), c, "things", "id", ""); err != nil {
		t.Fatal(err)
	}
	_, err := c.Scan(context.Background(), &dynamodb.ScanInput{
		TableName:        aws.String("things"),
		FilterExpression: aws.String("id = :ab"),
		ExpressionAttributeValues: map[string]types.AttributeValue{
			":ab": &types.AttributeValueMemberS{Value: "x"},
			":a":  &types.AttributeValueMemberS{Value: "unused"},
		},
	})
	if err == nil {
		t.Fatalf("the unused value :a was accepted because :ab occurs in the expression")
	}
}
