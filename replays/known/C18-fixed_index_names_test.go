package core

import (
	"testing"

	"github.com/truora/minidyn/types"
)

// Witness (fixed defect): with two indexes of one kind, every entry of the table description carried the same IndexName
// (the address of the range variable was stored).
func TestVerifWitnessC18IndexNames(t *testing.T) {
	table := NewTable("t")
	table.Indexes["one"] = newIndex(table, indexTypeGlobal, keySchema{HashKey: "a"})
	table.Indexes["two"] = newIndex(table, indexTypeGlobal, keySchema{HashKey: "b"})
	gsi, _ := table.IndexesDescription()
	if len(gsi) != 2 {
		t.Fatalf("%d global indexes described, want 2", len(gsi))
	}
	names := map[string]bool{types.StringValue(gsi[0].IndexName): true, types.StringValue(gsi[1].IndexName): true}
	if !names["one"] || !names["two"] {
		t.Fatalf("described index names %v, want one and two", names)
	}
}
