package core

// Witness of known finding C07-F1: the actions of an update expression are applied one after the other to the same
// environment, so a right-hand side that mentions an attribute assigned earlier in the expression reads the new value
// instead of the pre-update one.

import (
	"testing"

	"github.com/truora/minidyn/interpreter"
	"github.com/truora/minidyn/types"
)

func TestVerifWitnessC07F1(t *testing.T) {
	table := NewTable("t")
	table.AttributesDef = map[string]string{"id": "S"}
	table.KeySchema = keySchema{HashKey: "id"}
	table.LangInterpreter = interpreter.Language{}
	s := func(v string) *types.Item { return &types.Item{S: types.ToString(v)} }
	if _, err := table.Put(&types.PutItemInput{Item: map[string]*types.Item{"id": s("k"), "b": s("2")}}); err != nil {
		t.Fatal(err)
	}
	out, err := table.Update(&types.UpdateItemInput{Key: map[string]*types.Item{"id": s("k")}, UpdateExpression: "SET b = :x, c = b",
		ExpressionAttributeValues: map[string]*types.Item{":x": s("new")}})
	if err != nil {
		t.Fatal(err)
	}
	if got := types.StringValue(out["c"].S); got != "2" {
		t.Fatalf("SET b = :x, c = b: c got %q, want the pre-update value \"2\"", got)
	}
}
