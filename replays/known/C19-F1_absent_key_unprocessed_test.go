package client

// Witness of known finding C19-F1 (SDK v2): BatchGetItem reports a key that has no stored item as
// unprocessed. (The pinned test TestPutAndGetBatchItem requires exactly this, so it cannot be repaired.)

import (
	"context"
	"testing"

	"github.com/aws/aws-sdk-go-v2/service/dynamodb"
	"github.com/aws/aws-sdk-go-v2/service/dynamodb/types"
)

func TestVerifWitnessC19F1(t *testing.T) {
	c := NewClient()
	if err := AddTable(context.Background(), c, "things", "id", ""); err != nil {
		t.Fatal(err)
	}
	out, err := c.BatchGetItem(context.Background(), &dynamodb.BatchGetItemInput{RequestItems: map[string]types.KeysAndAttributes{
		"things": {Keys: []map[string]types.AttributeValue{{"id": &types.AttributeValueMemberS{Value: "absent"}}}},
	}})
	if err != nil {
		t.Fatal(err)
	}
	if len(out.UnprocessedKeys) != 0 {
		t.Fatalf("the absent key is reported as unprocessed: %v", out.UnprocessedKeys)
	}
}
