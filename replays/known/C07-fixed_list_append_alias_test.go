package core

import (
	"testing"

	"github.com/truora/minidyn/interpreter"
	"github.com/truora/minidyn/types"
)

func TestVerifWitnessC07Alias(t *testing.T) {
	table := NewTable("t")
	table.AttributesDef = map[string]string{"id": "S"}
	table.KeySchema = keySchema{HashKey: "id"}
	table.LangInterpreter = interpreter.Language{}
	s := func(v string) *types.Item { return &types.Item{S: types.ToString(v)} }
	l := func(vs ...string) *types.Item {
		out := &types.Item{L: []*types.Item{}}
		for _, v := range vs {
			out.L = append(out.L, s(v))
		}
		return out
	}
	if _, err := table.Put(&types.PutItemInput{Item: map[string]*types.Item{"id": s("k"), "tools": l("a", "b", "c")}}); err != nil {
		t.Fatal(err)
	}
	out, err := table.Update(&types.UpdateItemInput{Key: map[string]*types.Item{"id": s("k")},
		UpdateExpression:          "SET la = list_append(tools, :x), lb = list_append(la, :y), lc = list_append(la, :z)",
		ExpressionAttributeValues: map[string]*types.Item{":x": l("x"), ":y": l("y"), ":z": l("z")}})
	if err != nil {
		t.Fatal(err)
	}
	got := []string{}
	for _, e := range out["lb"].L {
		got = append(got, types.StringValue(e.S))
	}
	if len(got) != 5 || got[4] != "y" {
		t.Fatalf("lb = %v, want [a b c x y]: a later list_append overwrote it through a shared backing array", got)
	}
}
