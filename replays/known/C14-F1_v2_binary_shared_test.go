package client

import (
	"bytes"
	"context"
	"testing"

	"github.com/aws/aws-sdk-go-v2/aws"
	"github.com/aws/aws-sdk-go-v2/service/dynamodb"
	dynamodbtypes "github.com/aws/aws-sdk-go-v2/service/dynamodb/types"
)

// Witness of known finding C14-F1: the SDK v2 mappers pass B / BS byte slices through by reference in both directions.
func TestVerifWitnessC14F1(t *testing.T) {
	ctx := context.Background()
	c := NewClient()
	if err := AddTable(ctx, c, "t", "id", ""); err != nil {
		t.Fatal(err)
	}
	payload := []byte("original")
	_, err := c.PutItem(ctx, &dynamodb.PutItemInput{TableName: aws.String("t"), Item: map[string]dynamodbtypes.AttributeValue{
		"id": &dynamodbtypes.AttributeValueMemberS{Value: "a"}, "p": &dynamodbtypes.AttributeValueMemberB{Value: payload}}})
	if err != nil {
		t.Fatal(err)
	}
	copy(payload, "tampered") // the caller reuses its buffer after the call returned
	out, err := c.GetItem(ctx, &dynamodb.GetItemInput{TableName: aws.String("t"), Key: map[string]dynamodbtypes.AttributeValue{"id": &dynamodbtypes.AttributeValueMemberS{Value: "a"}}})
	if err != nil {
		t.Fatal(err)
	}
	if b, ok := out.Item["p"].(*dynamodbtypes.AttributeValueMemberB); !ok || !bytes.Equal(b.Value, []byte("original")) {
		t.Fatalf("stored binary changed through the caller's buffer: %v", out.Item["p"])
	}
}
