package interpreter

import (
	"errors"
	"testing"

	"github.com/truora/minidyn/types"
)

func TestVerifWitnessC20(t *testing.T) {
	n := NewNativeInterpreter()
	fired := false
	n.AddUpdater("t", "SET ab = :x", func(item, vals map[string]*types.Item) { fired = true })
	err := n.Update(UpdateInput{TableName: "t", Expression: "SET ba = :x", Item: map[string]*types.Item{}})
	if !errors.Is(err, ErrUnsupportedFeature) || fired {
		t.Errorf("updater registered for \"SET ab = :x\" fired for \"SET ba = :x\" (err=%v)", err)
	}
	n.AddMatcher("t", ExpressionTypeFilter, "a = :v", func(item, vals map[string]*types.Item) bool { return true })
	if _, err := n.Match(MatchInput{TableName: "t", Expression: "a  =  :v", ExpressionType: ExpressionTypeFilter}); err != nil {
		t.Errorf("matcher registered for \"a = :v\" is not found for the same text with repeated whitespace: %v", err)
	}
}
