package client

import (
	"context"
	"testing"

	"github.com/aws/aws-sdk-go-v2/aws"
	"github.com/aws/aws-sdk-go-v2/service/dynamodb"
	dynamodbtypes "github.com/aws/aws-sdk-go-v2/service/dynamodb/types"
)

// Witness (fixed defect): the BOOL attribute stored by PutItem pointed into the caller's AttributeValueMemberBOOL.
func TestVerifWitnessC14Bool(t *testing.T) {
	ctx := context.Background()
	c := NewClient()
	if err := AddTable(ctx, c, "t", "id", ""); err != nil {
		t.Fatal(err)
	}
	flag := &dynamodbtypes.AttributeValueMemberBOOL{Value: true}
	_, err := c.PutItem(ctx, &dynamodb.PutItemInput{TableName: aws.String("t"), Item: map[string]dynamodbtypes.AttributeValue{
		"id": &dynamodbtypes.AttributeValueMemberS{Value: "a"}, "flag": flag}})
	if err != nil {
		t.Fatal(err)
	}
	flag.Value = false // the caller reuses its value after the call returned
	out, err := c.GetItem(ctx, &dynamodb.GetItemInput{TableName: aws.String("t"), Key: map[string]dynamodbtypes.AttributeValue{"id": &dynamodbtypes.AttributeValueMemberS{Value: "a"}}})
	if err != nil {
		t.Fatal(err)
	}
	if b, ok := out.Item["flag"].(*dynamodbtypes.AttributeValueMemberBOOL); !ok || !b.Value {
		t.Fatalf("stored BOOL changed when the caller modified its input after PutItem returned: %v", out.Item["flag"])
	}
}
