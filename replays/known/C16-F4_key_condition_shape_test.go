package client

// Witness of known finding C16-F4: the shape of a key condition is never validated: a Query whose key
// condition does not constrain the partition key by equality is accepted.

import (
	"context"
	"testing"

	"github.com/aws/aws-sdk-go-v2/aws"
	"github.com/aws/aws-sdk-go-v2/service/dynamodb"
	"github.com/aws/aws-sdk-go-v2/service/dynamodb/types"
)

func TestVerifWitnessC16F4(t *testing.T) {
	c := NewClient()
	if err := AddTable(context.Background(), c, "things", "id", "sk"); err != nil {
		t.Fatal(err)
	}
	_, err := c.Query(context.Background(), &dynamodb.QueryInput{
		TableName:              aws.String("things"),
		KeyConditionExpression: aws.String("sk > :s"),
		ExpressionAttributeValues: map[string]types.AttributeValue{
			":s": &types.AttributeValueMemberS{Value: "a"},
		},
	})
	if err == nil {
		t.Fatalf("a key condition without an equality on the partition key was accepted")
	}
}
