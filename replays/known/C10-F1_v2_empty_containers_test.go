package client

import (
	"context"
	"testing"

	"github.com/aws/aws-sdk-go-v2/aws"
	"github.com/aws/aws-sdk-go-v2/service/dynamodb"
	dynamodbtypes "github.com/aws/aws-sdk-go-v2/service/dynamodb/types"
)

// Witness of known finding C10-F1: an empty list / map / binary written with PutItem came back as NULL.
func TestVerifWitnessC10F1(t *testing.T) {
	ctx := context.Background()
	c := NewClient()
	if err := AddTable(ctx, c, "t", "id", ""); err != nil {
		t.Fatal(err)
	}
	_, err := c.PutItem(ctx, &dynamodb.PutItemInput{TableName: aws.String("t"), Item: map[string]dynamodbtypes.AttributeValue{
		"id": &dynamodbtypes.AttributeValueMemberS{Value: "a"},
		"l":  &dynamodbtypes.AttributeValueMemberL{Value: []dynamodbtypes.AttributeValue{}},
		"m":  &dynamodbtypes.AttributeValueMemberM{Value: map[string]dynamodbtypes.AttributeValue{}},
		"b":  &dynamodbtypes.AttributeValueMemberB{Value: []byte{}},
	}})
	if err != nil {
		t.Fatal(err)
	}
	out, err := c.GetItem(ctx, &dynamodb.GetItemInput{TableName: aws.String("t"), Key: map[string]dynamodbtypes.AttributeValue{"id": &dynamodbtypes.AttributeValueMemberS{Value: "a"}}})
	if err != nil {
		t.Fatal(err)
	}
	if _, ok := out.Item["l"].(*dynamodbtypes.AttributeValueMemberL); !ok {
		t.Errorf("empty list came back as %T", out.Item["l"])
	}
	if _, ok := out.Item["m"].(*dynamodbtypes.AttributeValueMemberM); !ok {
		t.Errorf("empty map came back as %T", out.Item["m"])
	}
	if _, ok := out.Item["b"].(*dynamodbtypes.AttributeValueMemberB); !ok {
		t.Errorf("empty binary came back as %T", out.Item["b"])
	}
}
