package client

import (
	"testing"

	"github.com/aws/aws-sdk-go/aws"
	"github.com/aws/aws-sdk-go/service/dynamodb"
)

// Witness (fixed defect): DescribeTable through the SDK v1 client dropped the item count of every global secondary
// index (the SDK v2 client reports it).
func TestVerifWitnessC18V1GsiItemCount(t *testing.T) {
	c := NewClient()
	if err := AddTable(c, "tbl", "id", ""); err != nil {
		t.Fatal(err)
	}
	if err := AddIndex(c, "tbl", "by-g", "g", ""); err != nil {
		t.Fatal(err)
	}
	_, err := c.PutItem(&dynamodb.PutItemInput{TableName: aws.String("tbl"), Item: map[string]*dynamodb.AttributeValue{
		"id": {S: aws.String("a")}, "g": {S: aws.String("x")}}})
	if err != nil {
		t.Fatal(err)
	}
	out, err := c.DescribeTable(&dynamodb.DescribeTableInput{TableName: aws.String("tbl")})
	if err != nil {
		t.Fatal(err)
	}
	if len(out.Table.GlobalSecondaryIndexes) != 1 {
		t.Fatalf("%d global indexes described, want 1", len(out.Table.GlobalSecondaryIndexes))
	}
	if n := out.Table.GlobalSecondaryIndexes[0].ItemCount; n == nil || *n != 1 {
		t.Fatalf("item count of the index: %v, want 1", n)
	}
}
