package core

// Witness of known finding C13-F2: an update expression may assign a key attribute; the stored item then
// no longer carries the key it is retrievable under. (The pinned test TestUpdate requires this SET to succeed.)

import (
	"testing"

	"github.com/truora/minidyn/interpreter"
	"github.com/truora/minidyn/types"
)

func TestVerifWitnessC13F2(t *testing.T) {
	table := NewTable("t")
	table.AttributesDef = map[string]string{"id": "S"}
	table.KeySchema = keySchema{HashKey: "id"}
	table.LangInterpreter = interpreter.Language{}
	if _, err := table.Put(&types.PutItemInput{Item: map[string]*types.Item{"id": {S: types.ToString("a")}}}); err != nil {
		t.Fatal(err)
	}
	_, err := table.Update(&types.UpdateItemInput{
		Key:                       map[string]*types.Item{"id": {S: types.ToString("a")}},
		UpdateExpression:          "SET id = :n",
		ExpressionAttributeValues: map[string]*types.Item{":n": {S: types.ToString("b")}},
	})
	if err == nil {
		k, _ := table.KeySchema.GetKey(table.AttributesDef, table.Data["a"])
		if k != "a" {
			t.Fatalf("item stored under key \"a\" now has key attributes %q", k)
		}
	}
}
