package main

// SMT-LIB helpers and the solver race.

import (
	"bytes"
	"context"
	"fmt"
	"os"
	"os/exec"
	"path/filepath"
	"strings"
	"sync"
	"time"
)

func sanitize(s string) string {
	var b strings.Builder
	for _, r := range s {
		switch {
		case r >= 'a' && r <= 'z', r >= 'A' && r <= 'Z', r >= '0' && r <= '9', r == '_', r == '$', r == '!':
			b.WriteRune(r)
		case r == '.', r == '/':
			b.WriteByte('_')
		case r == '*':
			b.WriteString("p_")
		case r == '[':
			b.WriteString("L_")
		case r == ']':
			b.WriteString("_R")
		case r == ' ':
		default:
			fmt.Fprintf(&b, "x%x", r)
		}
	}
	return b.String()
}

func app(f string, args ...string) string {
	if len(args) == 0 {
		return f
	}
	return "(" + f + " " + strings.Join(args, " ") + ")"
}

func and(xs ...string) string {
	var ys []string
	for _, x := range xs {
		if x == "true" || x == "" {
			continue
		}
		if x == "false" {
			return "false"
		}
		ys = append(ys, x)
	}
	if len(ys) == 0 {
		return "true"
	}
	if len(ys) == 1 {
		return ys[0]
	}
	return app("and", ys...)
}

func or(xs ...string) string {
	var ys []string
	for _, x := range xs {
		if x == "false" || x == "" {
			continue
		}
		if x == "true" {
			return "true"
		}
		ys = append(ys, x)
	}
	if len(ys) == 0 {
		return "false"
	}
	if len(ys) == 1 {
		return ys[0]
	}
	return app("or", ys...)
}

func not(x string) string {
	if x == "true" {
		return "false"
	}
	if x == "false" {
		return "true"
	}
	return app("not", x)
}

func implies(a, b string) string {
	if a == "true" {
		return b
	}
	if b == "true" {
		return "true"
	}
	return app("=>", a, b)
}

func eq(a, b string) string  { return app("=", a, b) }
func ite(c, a, b string) string { return app("ite", c, a, b) }
func sel(a, i string) string { return app("select", a, i) }
func sto(a, i, v string) string { return app("store", a, i, v) }
func itoa(i int) string {
	if i < 0 {
		return fmt.Sprintf("(- %d)", -i)
	}
	return fmt.Sprintf("%d", i)
}

// ---------------------------------------------------------------------------

type SolverResult struct {
	Status  string // unsat | sat | unknown | timeout | error
	Solver  string
	Seconds float64
	Output  string
	All     map[string]string // per-solver status
}

type solverSpec struct {
	name string
	argv func(file string, timeoutS int, seed int) []string
	prep func(q string) string
}

var solvers = []solverSpec{
	{"z3-new", func(f string, t, seed int) []string {
		return []string{"z3-new", fmt.Sprintf("-T:%d", t), fmt.Sprintf("smt.random_seed=%d", seed), f}
	}, noSetLogic},
	{"cvc5", func(f string, t, seed int) []string {
		return []string{"cvc5", "--incremental", "--strings-exp", fmt.Sprintf("--tlimit=%d", t*1000), fmt.Sprintf("--seed=%d", seed), f}
	}, nil},
	{"z3", func(f string, t, seed int) []string {
		return []string{"z3", fmt.Sprintf("-T:%d", t), fmt.Sprintf("smt.random_seed=%d", seed), f}
	}, noSetLogic},
}

// noSetLogic: the z3 solvers get the query without "(set-logic ALL)". With that line z3 5.1.0 selects a strategy
// that answered "unsat" on a satisfiable set of entry assumptions (seen once, on the vacuity guard of
// interpreter.(*Native).Match; not reproducible with any other seed, tactic or with the line removed);
// without it z3 uses its plain SMT core. cvc5 needs the line.
func noSetLogic(q string) string {
	return strings.Replace(q, "(set-logic ALL)\n", "", 1)
}

var workDir string

func initWorkDir() {
	base := os.Getenv("GOVC_WORK")
	if base == "" {
		base = "/verif/.work"
	}
	workDir = filepath.Join(base, fmt.Sprintf("%d", os.Getpid()))
	os.MkdirAll(workDir, 0o755)
}

func cleanupWorkDir() {
	if workDir != "" {
		os.RemoveAll(workDir)
	}
}

var fileSeq int
var fileSeqMu sync.Mutex

// runSolvers races the installed solvers on one query; first definite answer
// (unsat / sat) wins. With confirm=true every solver is run to completion and
// a sat from any solver overrides an unsat.
func runSolvers(query string, timeoutS int, seed int, confirm bool, only []string) SolverResult {
	r := runSolvers0(query, timeoutS, seed, confirm, only)
	if r.Status != "unsat" || r.Solver != "z3-new" {
		return r
	}
	for n, st := range r.All {
		if n != "z3-new" && st == "unsat" {
			return r // an independent solver agrees
		}
	}
	// z3 5.1.0 answered "unsat" on satisfiable entry assumptions twice during development (not reproducible with another
	// seed or statement order). An unsat that only z3-new gives is therefore accepted only when a second run with a
	// different seed gives it again.
	r2 := runSolvers0(query, timeoutS, seed+101, false, []string{"z3-new"})
	if r2.Status == "unsat" {
		r.Seconds += r2.Seconds
		return r
	}
	r.Status = "unknown"
	r.All["z3-new#2"] = r2.Status
	r.Output = "z3-new answered unsat, but a second run with another seed did not (" + r2.Status + "): not accepted"
	return r
}

func runSolvers0(query string, timeoutS int, seed int, confirm bool, only []string) SolverResult {
	fileSeqMu.Lock()
	fileSeq++
	n := fileSeq
	fileSeqMu.Unlock()
	file := filepath.Join(workDir, fmt.Sprintf("q%d.smt2", n))
	os.WriteFile(file, []byte(query), 0o644)
	defer os.Remove(file)

	ctx, cancel := context.WithTimeout(context.Background(), time.Duration(timeoutS+2)*time.Second)
	defer cancel()
	type one struct {
		name, status, out string
		secs             float64
	}
	ch := make(chan one, len(solvers))
	nrun := 0
	for _, s := range solvers {
		if len(only) > 0 {
			found := false
			for _, o := range only {
				if o == s.name {
					found = true
				}
			}
			if !found {
				continue
			}
		}
		nrun++
		go func(s solverSpec) {
			start := time.Now()
			file := file
			if s.prep != nil {
				file = strings.TrimSuffix(file, ".smt2") + "." + s.name + ".smt2"
				os.WriteFile(file, []byte(s.prep(query)), 0o644)
				defer os.Remove(file)
			}
			argv := s.argv(file, timeoutS, seed)
			cmd := exec.CommandContext(ctx, argv[0], argv[1:]...)
			var out bytes.Buffer
			cmd.Stdout = &out
			cmd.Stderr = &out
			cmd.Run()
			o := out.String()
			first := strings.TrimSpace(strings.SplitN(o, "\n", 2)[0])
			st := "error"
			switch {
			case first == "unsat":
				st = "unsat"
			case first == "sat":
				st = "sat"
			case first == "unknown":
				st = "unknown"
			case strings.Contains(first, "timeout") || ctx.Err() != nil || strings.Contains(o, "interrupted"):
				st = "timeout"
			}
			ch <- one{s.name, st, o, time.Since(start).Seconds()}
		}(s)
	}
	res := SolverResult{Status: "unknown", All: map[string]string{}}
	var firstDefinite *one
	for i := 0; i < nrun; i++ {
		o := <-ch
		res.All[o.name] = o.status
		if o.status == "error" && res.Output == "" {
			res.Output = o.name + ": " + o.out
		}
		if o.status == "unsat" || o.status == "sat" {
			if firstDefinite == nil {
				oo := o
				firstDefinite = &oo
				if !confirm {
					cancel()
					// drain in background
					go func(k int) {
						for j := 0; j < k; j++ {
							<-ch
						}
					}(nrun - i - 1)
					break
				}
			} else if o.status == "sat" {
				oo := o
				firstDefinite = &oo
			}
		}
	}
	if firstDefinite != nil {
		res.Status = firstDefinite.status
		res.Solver = firstDefinite.name
		res.Seconds = firstDefinite.secs
		res.Output = firstDefinite.out
		if confirm {
			for _, st := range res.All {
				if st == "sat" {
					res.Status = "sat"
				}
			}
		}
		return res
	}
	allTimeout := true
	for _, st := range res.All {
		if st != "timeout" {
			allTimeout = false
		}
	}
	if allTimeout {
		res.Status = "timeout"
	}
	return res
}
