package main

import (
	"strconv"
	"fmt"
	"go/token"
	"go/types"
	"sort"
	"strings"

	"golang.org/x/tools/go/ssa"
)

const modulePath = "github.com/truora/minidyn"

func inModule(fn *ssa.Function) bool {
	p := pkgOfFn(fn)
	return p != nil && strings.HasPrefix(p.Path(), modulePath)
}

func (f *Frame) execCall(b *ssa.BasicBlock, in *ssa.Call, c *ssa.CallCommon, st *State, g string) {
	var args []Val
	for _, a := range c.Args {
		args = append(args, f.val(a))
	}
	fnv := f.val(c.Value)
	res := f.doCall(b, in, c, fnv, args, st, g)
	f.vals[in] = res
}

func (f *Frame) doCall(b *ssa.BasicBlock, in *ssa.Call, c *ssa.CallCommon, fnv Val, args []Val, st *State, g string) Val {
	if c.IsInvoke() {
		return f.invoke(b, in, c, fnv, args, st, g)
	}
	switch callee := c.Value.(type) {
	case *ssa.Builtin:
		return f.builtin(b, in, c, callee, args, st, g)
	case *ssa.Function:
		return f.callStatic(b, in, callee, args, nil, st, g, c.Signature().Results())
	}
	if fnv.Fn != nil {
		return f.callStatic(b, in, fnv.Fn, args, fnv.Bind, st, g, c.Signature().Results())
	}
	// dynamic call through a function value: everything may change; the results are named as values of an
	// uninterpreted function of the callee, the arguments and a per-call epoch (no determinism across calls is
	// assumed: every call has its own epoch), so that a contract can say "the result is this callback's result"
	res := f.unknownCall(b, in, c, "dynamic call through function value of type "+c.Value.Type().String(), true, st, g, c.Signature().Results())
	f.nameDynResults(c.Signature(), fnv, args, res, st, g)
	return res
}

func dynFnName(e *Enc, sig *types.Signature, i int) string {
	name := fmt.Sprintf("dyn$%s$%d", sanitize(typeKey(sig)), i)
	if !e.declared[name] {
		var as []string
		as = append(as, "Int")
		for j := 0; j < sig.Params().Len(); j++ {
			as = append(as, e.sortOf(sig.Params().At(j).Type()))
		}
		as = append(as, "Int")
		e.declRaw(name, fmt.Sprintf("(declare-fun %s (%s) %s)", name, strings.Join(as, " "), e.sortOf(sig.Results().At(i).Type())))
	}
	return name
}

func (f *Frame) nameDynResults(sig *types.Signature, fnv Val, args []Val, res Val, st *State, g string) {
	e := f.e
	e.heap("G$dyn", "Int")
	ep := e.freshConst("G$dyn", "Int")
	st.heap["G$dyn"] = ep
	if fnv.T == "" || sig.Variadic() {
		return
	}
	ts := []string{fnv.T}
	for _, a := range args {
		if a.T == "" || a.T == "INTERIOR" || a.Tup != nil {
			return
		}
		ts = append(ts, a.T)
	}
	ts = append(ts, ep)
	one := func(i int, v Val) {
		if v.T == "" {
			return
		}
		e.assume(implies(g, eq(v.T, app(dynFnName(e, sig, i), ts...))))
	}
	if res.Tup != nil {
		for i, v := range res.Tup {
			one(i, v)
		}
	} else if sig.Results().Len() == 1 {
		one(0, res)
	}
}

func (f *Frame) resultVal(hint string, rs *types.Tuple) Val {
	e := f.e
	mk := func(t types.Type, i int) Val {
		c := e.freshConst(fmt.Sprintf("%s_r%d", hint, i), e.sortOf(t))
		f.typeInv(c, t)
		return Val{T: c}
	}
	switch rs.Len() {
	case 0:
		return Val{}
	case 1:
		return mk(rs.At(0).Type(), 0)
	}
	var vs []Val
	for i := 0; i < rs.Len(); i++ {
		vs = append(vs, mk(rs.At(i).Type(), i))
	}
	return Val{Tup: vs}
}

func (f *Frame) unknownCall(b *ssa.BasicBlock, in *ssa.Call, c *ssa.CallCommon, why string, havocAll bool, st *State, g string, rs *types.Tuple) Val {
	e := f.e
	e.note("unmodelled call: " + why)
	if havocAll {
		st.havocAll()
		na := e.freshConst("alloc", "Int")
		e.assume(app("<=", st.alloc, na))
		st.alloc = na
	}
	return f.resultVal("unk", rs)
}

func (f *Frame) onStack(fn *ssa.Function) bool {
	for _, s := range f.stack {
		if s == fn {
			return true
		}
	}
	return false
}

// callSiteClauses: the obligations the enclosing function's contract attaches to its calls of callee
func (f *Frame) callSiteClauses(b *ssa.BasicBlock, in *ssa.Call, callee *ssa.Function, args []Val, st *State, g string) {
	if f.callerF != nil || in == nil {
		return
	}
	sp := f.specOf(f.fn)
	if sp == nil || len(sp.CallSites) == 0 {
		return
	}
	siteOrd := f.callSiteN("csord:" + funcDisplay(callee)) // this is the siteOrd-th call of callee met in the function
	for _, cs := range sp.CallSites {
		name, want := cs.Callee, 0
		if i := strings.LastIndex(name, "#"); i > 0 {
			// CALLEE#N: only the N-th call of CALLEE (in the order the calls are met along the control flow graph)
			if n, err := strconv.Atoi(name[i+1:]); err == nil {
				name, want = name[:i], n
			}
		}
		if name != funcDisplay(callee) || (want != 0 && want != siteOrd) {
			continue
		}
		cs.Seen = true
		if f.e.property != "" && !hasTag(cs.Clause.Tags, f.e.property) {
			continue
		}
		var own []Val
		for _, p := range f.fn.Params {
			own = append(own, f.vals[p])
		}
		ctx := f.ctxFor(f.fn, own, nil, st, f.entry, g)
		ctx.lookup = func(name string) (SV, bool) { return f.resolveLocal(name, b, st, nil) }
		ctx.callArgs = map[string]SV{}
		for i, p := range callee.Params {
			if i < len(args) {
				ctx.callArgs[p.Name()] = f.e.svOfVal(args[i], p.Type())
			}
		}
		t := ctx.eval(cs.Clause.Expr).T
		f.oblige("callsite", f.oblName(fmt.Sprintf("%s:callsite@%s#%d.%d", funcDisplay(f.fn), funcDisplay(callee), f.callSiteN("cs:"+funcDisplay(callee)+fmt.Sprint(cs.Clause.Ord)), cs.Clause.Ord)), g, t, cs.Clause.Src, cs.Clause.Tags, posOf(in))
	}
}

func (f *Frame) callStatic(b *ssa.BasicBlock, in *ssa.Call, callee *ssa.Function, args []Val, binds []Val, st *State, g string, rs *types.Tuple) Val {
	e := f.e
	full := callee.String()
	f.callSiteClauses(b, in, callee, args, st, g)
	if e.nopanic && in != nil && !in.Call.IsInvoke() && callee.Signature.Recv() != nil && len(args) > 0 && args[0].LV == nil && inModule(callee) {
		if _, isPtr := callee.Signature.Recv().Type().Underlying().(*types.Pointer); isPtr {
			f.safety(b, "nilrecv", in, not(eq(args[0].T, "0")))
		}
	}
	if callee.Synthetic != "" && callee.Blocks != nil && (strings.HasPrefix(callee.Synthetic, "wrapper") || strings.HasPrefix(callee.Synthetic, "bound") || strings.HasPrefix(callee.Synthetic, "thunk")) {
		// wrappers: inline directly
		if f.depth < inlineDepthLimit+4 && !f.onStack(callee) {
			return f.inlineCall(callee, args, binds, st, g, b)
		}
	}
	if m, ok := externs[full]; ok {
		e.funcsUsed[full] = "extern-model"
		return m(f, b, in, args, st, g)
	}
	if strings.HasPrefix(full, "(*github.com/aws/aws-sdk-go/service/dynamodb.") && strings.HasSuffix(full, ").Validate") && len(args) == 1 {
		// SDK v1 request validation: a function of the request object (no effect on module state)
		e.note("assumed contract: SDK v1 input.Validate() is a function of the request (sdkValidate) without heap effects")
		e.declRaw("sdkValidate", "(declare-fun sdkValidate (Int) Iface)\n(assert (forall ((r Int)) (! (iface_ok (sdkValidate r)) :pattern ((sdkValidate r)))))")
		return Val{T: app("sdkValidate", args[0].T)}
	}
	if e.callPolicy == "lock" {
		if gi, gs := f.guardedArg(callee, args); gi >= 0 {
			return f.lockContractCall(b, in, callee, args, gi, gs, st, g, rs)
		}
		// objects reachable only through guarded fields (core tables and indexes) are used under the lock
		top := f
		for top.callerF != nil {
			top = top.callerF
		}
		for i, p := range callee.Params {
			if pt, ok := p.Type().Underlying().(*types.Pointer); ok && i < len(args) {
				_ = pt
				if isCoreShared(p.Type()) {
					for k, lo := range top.lockObjs {
						need, why := not(eq(f.loadLV(st, lo), "0")), "a core table reached through the client is used only while the client mutex is held"
						if needsWriteLock(e.prog, callee) {
							need, why = eq(f.loadLV(st, lo), "1"), "a core function that writes table or index state is called only while the client mutex is held for writing"
						}
						f.oblige("lock", f.oblName(fmt.Sprintf("%s:table-use@%s#%d.%d", funcDisplay(f.fn), funcDisplay(callee), f.callSite(callee), k+1)), g, need, why, []string{"C11"}, posOf(in))
					}
					break
				}
			}
		}
		return f.resultVal(sanitize(callee.Name()), rs)
	}
	sp := f.specOf(callee)
	forcedOpaque := false
	if f.callerF == nil {
		if own := f.specOf(f.fn); own != nil {
			for _, o := range own.Opaque {
				if o == funcDisplay(callee) {
					forcedOpaque = true
				}
			}
		}
	}
	if (forcedOpaque || e.callPolicy == "shallow" || (e.callPolicy == "contracts" && sp == nil)) && callee.Blocks != nil && inModule(callee) && !(sp != nil && sp.Inline) {
		// opaque call: its may-write set is havoced, the result is unconstrained (sound over-approximation)
		e.funcsUsed[funcFull(callee)] = "opaque (may-write set havoced)"
		beforeOpaque := st.clone()
		for _, h := range e.mayWriteNames(callee) {
			st.heap[h] = e.freshConst(h, e.heapSort[h])
		}
		if _, all := mayWriteKeys(e.prog, callee)["*"]; all {
			st.havocAll()
		} else {
			f.keepPreexisting(callee, beforeOpaque, st, g)
		}
		e.canonAfterHavoc(st, e.mayWriteNames(callee))
		na := e.freshConst("alloc", "Int")
		e.assume(app("<=", st.alloc, na))
		st.alloc = na
		return f.resultVal(sanitize(callee.Name()), rs)
	}
	if sp != nil && !sp.Inline && len(binds) == 0 {
		e.funcsUsed[funcFull(callee)] = "contract"
		return f.contractCall(b, in, callee, sp, args, st, g)
	}
	if callee.Blocks != nil && inModule(callee) && f.depth < inlineDepthLimit && !f.onStack(callee) && e.inlineBudget > 0 && !f.noInline {
		e.inlineBudget--
		if _, ok := e.funcsUsed[funcFull(callee)]; !ok {
			e.funcsUsed[funcFull(callee)] = "inlined"
		}
		return f.inlineCall(callee, args, binds, st, g, b)
	}
	if callee.Blocks != nil && inModule(callee) {
		// recursive or too deep: havoc its may-write set
		e.funcsUsed[funcFull(callee)] = "havoc"
		e.note("call to " + funcFull(callee) + " without contract (recursive or too deep): may-write set havoced, result unconstrained")
		for _, h := range e.mayWriteNames(callee) {
			st.heap[h] = e.freshConst(h, e.heapSort[h])
		}
		e.canonAfterHavoc(st, e.mayWriteNames(callee))
		na := e.freshConst("alloc", "Int")
		e.assume(app("<=", st.alloc, na))
		st.alloc = na
		return f.resultVal(sanitize(callee.Name()), rs)
	}
	e.funcsUsed[full] = "external-unconstrained"
	e.note("external function " + full + " has no model: result unconstrained, assumed not to write module memory")
	return f.resultVal(sanitize(callee.Name()), rs)
}

func (f *Frame) inlineCall(callee *ssa.Function, args []Val, binds []Val, st *State, g string, b *ssa.BasicBlock) Val {
	e := f.e
	nf := e.newFrame(callee, f)
	for i, fv := range callee.FreeVars {
		if i < len(binds) {
			nf.vals[fv] = binds[i]
		}
	}
	nf.run(st, g, args)
	f.panics = append(f.panics, nf.panics...)
	rs := callee.Signature.Results()
	if len(nf.rets) == 0 {
		// never returns normally
		e.assume(not(g))
		return f.resultVal("noret", rs)
	}
	var gs []string
	for _, r := range nf.rets {
		gs = append(gs, r.guard)
	}
	e.assume(implies(g, or(gs...)))
	// merge state
	if len(nf.rets) == 1 {
		r := nf.rets[0]
		*st = *r.st.clone()
		switch rs.Len() {
		case 0:
			return Val{}
		case 1:
			return r.vals[0]
		}
		return Val{Tup: r.vals}
	}
	names := map[string]bool{}
	for _, r := range nf.rets {
		for h := range r.st.heap {
			names[h] = true
		}
	}
	var hs []string
	for h := range names {
		hs = append(hs, h)
	}
	sort.Strings(hs)
	for _, h := range hs {
		first := nf.rets[0].st.H(h)
		same := true
		for _, r := range nf.rets[1:] {
			if r.st.H(h) != first {
				same = false
			}
		}
		if same {
			st.heap[h] = first
			continue
		}
		c := e.freshConst(h, e.heapSort[h])
		chain := nf.rets[len(nf.rets)-1].st.H(h)
		for k := len(nf.rets) - 2; k >= 0; k-- {
			chain = ite(nf.rets[k].guard, nf.rets[k].st.H(h), chain)
		}
		e.assume(eq(c, chain))
		st.heap[h] = c
	}
	ac := e.freshConst("alloc", "Int")
	{
		chain := nf.rets[len(nf.rets)-1].st.alloc
		for k := len(nf.rets) - 2; k >= 0; k-- {
			chain = ite(nf.rets[k].guard, nf.rets[k].st.alloc, chain)
		}
		e.assume(eq(ac, chain))
	}
	st.alloc = ac
	for _, r := range nf.rets {
		for k, v := range r.st.iters {
			st.iters[k] = v
		}
	}
	mergeVal := func(i int, t types.Type) Val {
		first := nf.rets[0].vals[i]
		same := first.LV == nil
		for _, r := range nf.rets[1:] {
			if r.vals[i].T != first.T || r.vals[i].LV != nil {
				same = false
			}
		}
		if same {
			return first
		}
		c := e.freshConst(fmt.Sprintf("%s_ret%d", nf.id, i), e.sortOf(t))
		chain := ""
		for k := len(nf.rets) - 1; k >= 0; k-- {
			r := nf.rets[k]
			if r.vals[i].LV != nil {
				fail("%s: interior pointer returned", callee)
			}
			if chain == "" {
				chain = r.vals[i].T
			} else {
				chain = ite(r.guard, r.vals[i].T, chain)
			}
		}
		e.assume(eq(c, chain))
		return Val{T: c}
	}
	switch rs.Len() {
	case 0:
		return Val{}
	case 1:
		return mergeVal(0, rs.At(0).Type())
	}
	var vs []Val
	for i := 0; i < rs.Len(); i++ {
		vs = append(vs, mergeVal(i, rs.At(i).Type()))
	}
	return Val{Tup: vs}
}

// modset describes, per heap, the predicate of references that may be modified.
type modEntry struct {
	heap    string
	ref     string // reference term in the pre-state; "" = any reference
	binders string // "(n Str) ..." for quantified entries
	cond    string
}

func (f *Frame) evalModifies(sp *FuncSpec, ctx *SpecCtx) []modEntry {
	var out []modEntry
	for _, cl := range sp.Modifies {
		for _, n := range cl.Mods {
			out = append(out, f.evalModEntry(n, ctx)...)
		}
	}
	return out
}

func (f *Frame) evalModEntry(n *Node, ctx *SpecCtx) []modEntry {
	e := f.e
	var out []modEntry
	{
		{
			switch n.Kind {
			case "quant":
				// forall x T :: cond ==> loc
				vars := map[string]SV{}
				var binders []string
				for _, v := range n.Vars {
					t := ctx.resolveType(v.Type)
					name := e.fresh(v.Name + "!m")
					vars[v.Name] = SV{T: name, Sort: e.sortOf(t), Ty: t}
					binders = append(binders, fmt.Sprintf("(%s %s)", name, e.sortOf(t)))
				}
				c2 := ctx.with(vars)
				c2.inQ = ctx.inQ + 1
				body := n.Args[0]
				cond := "true"
				if body.Kind == "binop" && body.Op == "==>" {
					cond = c2.eval(body.Args[0]).T
					body = body.Args[1]
				}
				for _, m := range f.evalModEntry(body, c2) {
					m.binders = strings.Join(binders, " ") + " " + m.binders
					m.cond = and(cond, m.cond)
					out = append(out, m)
				}
			case "field":
				base := ctx.eval(n.Args[0])
				pt, ok := base.Ty.Underlying().(*types.Pointer)
				if !ok {
					fail("modifies: base of .%s must be a pointer", n.Name)
				}
				st, _ := isStruct(pt.Elem())
				found := false
				for i := 0; i < st.NumFields(); i++ {
					if st.Field(i).Name() == n.Name {
						found = true
						if base.LV != nil {
							out = append(out, modEntry{heap: base.LV.Heap, ref: base.LV.Ref})
						} else {
							out = append(out, modEntry{heap: e.fieldHeap(pt.Elem(), i), ref: base.T})
						}
					}
				}
				if !found {
					fail("modifies: no field %s", n.Name)
				}
			case "star":
				x := ctx.eval(n.Args[0])
				switch t := x.Ty.Underlying().(type) {
				case *types.Map:
					md, mv := e.mapHeaps(t)
					out = append(out, modEntry{heap: md, ref: x.T}, modEntry{heap: mv, ref: x.T})
				case *types.Slice:
					out = append(out, modEntry{heap: e.arrHeap(t.Elem()), ref: app("s_arr", x.T)})
				default:
					fail("modifies: x[*] needs a map or slice")
				}
			case "unop":
				if n.Op != "*" {
					fail("modifies: bad entry")
				}
				x := ctx.eval(n.Args[0])
				pt := x.Ty.Underlying().(*types.Pointer)
				if st, ok := isStruct(pt.Elem()); ok {
					for i := 0; i < st.NumFields(); i++ {
						out = append(out, modEntry{heap: e.fieldHeap(pt.Elem(), i), ref: x.T})
					}
				} else {
					out = append(out, modEntry{heap: e.ptrHeap(pt.Elem()), ref: x.T})
				}
			case "call":
				if n.Name == "maps" && len(n.Args) == 1 && n.Args[0].Kind == "str" {
					// maps("map[K]V"): any map of that type may change
					t := ctx.resolveType(n.Args[0].Name)
					md, mv := e.mapHeaps(t)
					out = append(out, modEntry{heap: md}, modEntry{heap: mv})
					return out
				}
				if n.Name == "arrays" && len(n.Args) == 1 && n.Args[0].Kind == "str" {
					// arrays("T"): any backing array of []T may change
					out = append(out, modEntry{heap: e.arrHeap(ctx.resolveType(n.Args[0].Name))})
					return out
				}
				if n.Name == "fields" && len(n.Args) == 2 && n.Args[0].Kind == "str" && n.Args[1].Kind == "str" {
					// fields("T", "f"): field f of any object of struct type T may change
					t := ctx.resolveType(n.Args[0].Name)
					st, ok := isStruct(t)
					if !ok {
						fail("modifies: fields() needs a struct type")
					}
					for i := 0; i < st.NumFields(); i++ {
						if st.Field(i).Name() == n.Args[1].Name {
							out = append(out, modEntry{heap: e.fieldHeap(t, i)})
						}
					}
					return out
				}
				if n.Name == "heap" && len(n.Args) == 1 && n.Args[0].Kind == "str" {
					// heap("name"): whole heap may change
					out = append(out, modEntry{heap: n.Args[0].Name, ref: ""})
					return out
				}
				fail("modifies: unsupported entry %s", n.Name)
			case "ident":
				if n.Name == "nothing" {
					return out
				}
				fail("modifies: unsupported entry %s", n.Name)
			default:
				fail("modifies: unsupported entry kind %s", n.Kind)
			}
		}
	}
	return out
}

// frameFact: for heap h, every pre-allocated reference outside the mod set is unchanged between before and after.
func (f *Frame) frameFact(h string, mods []modEntry, before, after *State, allocBefore string) string {
	e := f.e
	hb, ha := before.H(h), after.H(h)
	if hb == ha {
		return "true"
	}
	var excl []string
	r := e.fresh("r!fr")
	for _, m := range mods {
		if m.heap == h {
			if m.ref == "" {
				return "true"
			}
			if strings.TrimSpace(m.binders) != "" {
				excl = append(excl, fmt.Sprintf("(forall (%s) (not %s))", m.binders, and(m.cond, eq(r, m.ref))))
			} else {
				excl = append(excl, not(eq(r, m.ref)))
			}
		}
	}
	if len(excl) == 0 {
		return fmt.Sprintf("(forall ((%s Int)) (! (=> (< %s %s) (= (select %s %s) (select %s %s))) :pattern ((select %s %s)) :qid frame_%s))", r, r, allocBefore, ha, r, hb, r, ha, r, sanitize(h))
	}
	return fmt.Sprintf("(forall ((%s Int)) (! (=> (and (< %s %s) %s) (= (select %s %s) (select %s %s))) :pattern ((select %s %s)) :qid framex_%s))", r, r, allocBefore, and(excl...), ha, r, hb, r, ha, r, sanitize(h))
}

func (f *Frame) contractCall(b *ssa.BasicBlock, in *ssa.Call, callee *ssa.Function, sp *FuncSpec, args []Val, st *State, g string) Val {
	e := f.e
	before := st.clone()
	cname := funcDisplay(callee)
	pre := f.ctxFor(callee, args, nil, before, before, g)
	site := f.callSite(callee)
	for _, rq := range sp.Requires {
		t := pre.eval(rq.Expr).T
		f.oblige("pre", f.oblName(fmt.Sprintf("%s:pre@%s#%d.%d", funcDisplay(f.fn), cname, site, rq.Ord)), g, t, rq.Src, rq.Tags, posOf(in))
		e.assume(implies(g, t))
	}
	mods := f.evalModifies(sp, pre)
	if sp.MayPanic {
		f.panics = append(f.panics, retInfo{guard: g, st: before.clone(), pos: posOf(in)})
	}
	// havoc
	var writes []string
	if !sp.Assumed {
		writes = e.mayWriteNames(callee)
	} else {
		e.note("assumed contract of " + funcFull(callee) + ": only the locations in its modifies clause change (its body is not verified against the contract)")
	}
	for _, m := range mods {
		found := false
		for _, h := range writes {
			if h == m.heap {
				found = true
			}
		}
		if !found {
			writes = append(writes, m.heap)
		}
	}
	for _, h := range writes {
		st.heap[h] = e.freshConst(h, e.heapSort[h])
	}
	na := e.freshConst("alloc", "Int")
	e.assume(app("<=", st.alloc, na))
	st.alloc = na
	if !sp.Partial {
		for _, h := range writes {
			e.assume(implies(g, f.frameFact(h, mods, before, st, before.alloc)))
		}
	} else if !sp.Assumed {
		if _, all := mayWriteKeys(e.prog, callee)["*"]; !all {
			f.keepPreexisting(callee, before, st, g)
		}
	}
	e.canonAfterHavoc(st, writes)
	rs := callee.Signature.Results()
	res := f.resultVal(sanitize(callee.Name()), rs)
	var rvals []Val
	switch rs.Len() {
	case 0:
	case 1:
		rvals = []Val{res}
	default:
		rvals = res.Tup
	}
	if sp.Pure {
		pv := f.pureTerms(callee, args, before)
		for i, rv := range rvals {
			if pv[i].nilOnly {
				e.assume(implies(g, eq(eq(app("i_tag", rv.T), "0"), pv[i].term)))
			} else if pv[i].term != "" {
				e.assume(implies(g, eq(rv.T, pv[i].term)))
			}
		}
	}
	for i, rv := range rvals {
		switch rs.At(i).Type().Underlying().(type) {
		case *types.Pointer, *types.Map:
			e.assume(app("<", rv.T, st.alloc))
		case *types.Slice:
			e.assume(app("<", app("s_arr", rv.T), st.alloc))
		case *types.Interface:
			e.assume(app("<", app("i_val", rv.T), st.alloc))
		}
	}
	post := f.ctxFor(callee, args, rvals, st, before, g)
	for _, en := range sp.Ensures {
		if en.BodyOnly {
			continue
		}
		if mentionsGhost(en.Expr, sp) {
			continue // stated with the callee's ghost counting functions: not available to callers
		}
		t, ok := evalClauseAt(post, en)
		if !ok {
			continue // the clause talks about a local of the callee: it is an internal assertion, not part of what callers learn
		}
		e.assume(implies(g, t))
	}
	return res
}

func posOf(in *ssa.Call) token.Pos {
	if in == nil {
		return token.NoPos
	}
	return in.Pos()
}

func (f *Frame) callSite(callee *ssa.Function) int {
	if f.sites == nil {
		f.sites = map[*ssa.Function]int{}
	}
	f.sites[callee]++
	return f.sites[callee]
}

// ---------------------------------------------------------------------------
// interface method calls

func (f *Frame) invoke(b *ssa.BasicBlock, in *ssa.Call, c *ssa.CallCommon, recv Val, args []Val, st *State, g string) Val {
	e := f.e
	rs := c.Signature().Results()
	it := c.Value.Type().Underlying().(*types.Interface)
	mname := c.Method.Name()
	if m, ok := invokeModels[typeKey(c.Value.Type())+"."+mname]; ok {
		return m(f, b, in, recv, args, st, g)
	}
	if e.callPolicy == "lock" {
		return f.resultVal("m_"+mname, rs)
	}
	// error.Error(), fmt.Stringer etc. on foreign interfaces
	named, _ := c.Value.Type().(*types.Named)
	isModuleIface := named != nil && named.Obj().Pkg() != nil && strings.HasPrefix(named.Obj().Pkg().Path(), modulePath)
	if !isModuleIface {
		if mname == "Error" || mname == "String" {
			e.note("interface method " + mname + "() on foreign interface: result unconstrained, no heap effect")
			return f.resultVal("m_"+mname, rs)
		}
		return f.unknownCall(b, in, c, "invoke "+c.Value.Type().String()+"."+mname, false, st, g, rs)
	}
	// closed-world dispatch over module implementers
	imps := f.implementers(it)
	f.safety(b, "nil", in, not(eq(app("i_tag", recv.T), "0")))
	type outc struct {
		cond string
		st   *State
		res  Val
	}
	var outs []outc
	var conds []string
	saveNoInline := f.noInline
	if len(imps) > 3 {
		// wide dynamic dispatch: method bodies are not inlined (contracts are used where they exist)
		f.noInline = true
	}
	defer func() { f.noInline = saveNoInline }()
	for _, t := range imps {
		ms := e.prog.MethodSets.MethodSet(t)
		sel := ms.Lookup(c.Method.Pkg(), mname)
		if sel == nil {
			continue
		}
		fn := e.prog.MethodValue(sel)
		if fn == nil {
			continue
		}
		cond := eq(app("i_tag", recv.T), itoa(e.tagOf(t)))
		cg := e.freshConst("g_dispatch", "Bool")
		e.assume(eq(cg, and(g, cond)))
		st2 := st.clone()
		rv := Val{T: e.unbox(t, app("i_val", recv.T))}
		res := f.callStatic(b, in, fn, append([]Val{rv}, args...), nil, st2, cg, rs)
		outs = append(outs, outc{cg, st2, res})
		conds = append(conds, cond)
	}
	if len(outs) == 0 {
		return f.unknownCall(b, in, c, "invoke with no implementers "+mname, false, st, g, rs)
	}
	// dynamic type is one of the implementers (closed world)
	e.note("closed world: dynamic type of " + c.Value.Type().String() + " is one of its implementers declared in the module")
	e.assume(implies(g, or(conds...)))
	// merge
	res := f.resultVal("disp_"+mname, rs)
	for _, o := range outs {
		f.mergeInto(st, o.st, o.cond)
	}
	// mergeInto chains ite on cond; results:
	for _, o := range outs {
		switch rs.Len() {
		case 0:
		case 1:
			e.assume(implies(o.cond, eq(res.T, o.res.T)))
		default:
			for i := range res.Tup {
				e.assume(implies(o.cond, eq(res.Tup[i].T, o.res.Tup[i].T)))
			}
		}
	}
	return res
}

// ---------------------------------------------------------------------------
// builtins

func (f *Frame) builtin(b *ssa.BasicBlock, in *ssa.Call, c *ssa.CallCommon, bi *ssa.Builtin, args []Val, st *State, g string) Val {
	e := f.e
	switch bi.Name() {
	case "len":
		switch t := c.Args[0].Type().Underlying().(type) {
		case *types.Slice:
			return Val{T: app("s_len", args[0].T)}
		case *types.Map:
			md, _ := e.mapHeaps(t)
			return Val{T: app(cardFn(e.sortOf(t.Key())), sel(st.H(md), args[0].T))}
		case *types.Basic:
			return Val{T: app("str_len", args[0].T)}
		case *types.Array:
			return Val{T: itoa(int(t.Len()))}
		case *types.Pointer:
			return Val{T: itoa(int(t.Elem().Underlying().(*types.Array).Len()))}
		}
	case "cap":
		if _, ok := c.Args[0].Type().Underlying().(*types.Slice); ok {
			return Val{T: app("s_cap", args[0].T)}
		}
	case "append":
		return f.builtinAppend(b, in, c, args, st, g)
	case "copy":
		return f.builtinCopy(b, in, c, args, st, g)
	case "delete":
		mt := c.Args[0].Type().Underlying().(*types.Map)
		md, _ := e.mapHeaps(mt)
		m := args[0].T
		d0 := sel(st.H(md), m)
		_, mvh := e.mapHeaps(mt)
		v0d := sel(st.H(mvh), m)
		f.setHeap(st, md, sto(st.H(md), m, sto(sel(st.H(md), m), args[1].T, "false")))
		f.setHeap(st, mvh, sto(st.H(mvh), m, sto(v0d, args[1].T, e.zero(mt.Elem()))))
		if _, mv := e.mapHeaps(mt); e.declared["seq$Str"] && e.heapSort[mv] == "(Array Int (Array Str Str))" {
			// instance of the bagv removal lemma (seq_Str.smt2)
			v0 := v0d
			b0 := app("bagvS", d0, v0)
			k := args[1].T
			e.assume(eq(app("bagvS", sel(st.H(md), m), sel(st.H(mv), m)), ite(sel(d0, k), sto(b0, sel(v0, k), app("-", sel(b0, sel(v0, k)), "1")), b0)))
		}
		return Val{}
	case "print", "println":
		return Val{}
	case "min", "max":
		op := "<="
		if bi.Name() == "max" {
			op = ">="
		}
		r := args[0].T
		for _, a := range args[1:] {
			r = ite(app(op, r, a.T), r, a.T)
		}
		return Val{T: r}
	case "ssa:wrapnilchk":
		return args[0]
	}
	fail("%s: unsupported builtin %s on %s", f.fn, bi.Name(), c.Args[0].Type())
	return Val{}
}

func (f *Frame) builtinAppend(b *ssa.BasicBlock, in *ssa.Call, c *ssa.CallCommon, args []Val, st *State, g string) Val {
	e := f.e
	s, t := args[0], args[1]
	sl := c.Args[0].Type().Underlying().(*types.Slice)
	h := e.arrHeap(sl.Elem())
	es := e.sortOf(sl.Elem())
	hname := "app"
	if in != nil {
		hname = f.name(in)
	}
	// appended part
	var tlen string
	tIsString := false
	if bt, ok := c.Args[1].Type().Underlying().(*types.Basic); ok && bt.Info()&types.IsString != 0 {
		tIsString = true
		tlen = app("str_len", t.T)
	} else {
		tlen = app("s_len", t.T)
	}
	slen, soff, sarr, scap := app("s_len", s.T), app("s_off", s.T), app("s_arr", s.T), app("s_cap", s.T)
	n := e.freshConst(hname+"_n", "Int")
	e.assume(eq(n, app("+", slen, tlen)))
	old := sel(st.H(h), sarr)
	var content string
	if t.KLen > 0 && !tIsString {
		content = old
		for j := 0; j < t.KLen-1; j++ {
			elem := sel(sel(st.H(h), app("s_arr", t.T)), app("sidx", app("s_off", t.T), itoa(j)))
			content = sto(content, app("+", soff, slen, itoa(j)), elem)
		}
	} else {
		cc := e.freshConst(hname+"_content", "(Array Int "+es+")")
		i := e.fresh("i!ap")
		var src string
		if tIsString {
			src = app("str_at", t.T, app("-", i, app("+", soff, slen)))
		} else {
			src = sel(sel(st.H(h), app("s_arr", t.T)), app("+", app("s_off", t.T), app("-", i, app("+", soff, slen))))
		}
		e.assume(fmt.Sprintf("(forall ((%s Int)) (! (= (select %s %s) (ite (and (<= (+ %s %s) %s) (< %s (+ %s %s))) %s (select %s %s))) :pattern ((select %s %s))))",
			i, cc, i, soff, slen, i, i, soff, n, src, old, i, cc, i))
		content = cc
	}
	if es == "Str" && t.KLen == 2 && e.declared["seq$Str"] {
		// instance of lemma APPEND (seq_Str.smt2), stated at the append site to spare the solver the matching
		v := sel(sel(st.H(h), app("s_arr", t.T)), app("s_off", t.T))
		ob := app("bagS", old, soff, app("+", soff, slen))
		e.assume(eq(app("bagS", content, soff, app("+", soff, n)), sto(ob, v, app("+", "1", sel(ob, v)))))
	}
	fresh := f.allocRef(st, "apparr")
	inplace := e.freshConst(hname+"_inplace", "Bool")
	e.assume(eq(inplace, app("<=", n, scap)))
	ncap := e.freshConst(hname+"_cap", "Int")
	e.assume(app(">=", ncap, n))
	target := ite(inplace, sarr, fresh)
	f.setHeap(st, h, sto(st.H(h), target, content))
	res := e.freshConst(hname+"_res", "Slice")
	// appending nothing to a nil slice yields nil
	e.assume(eq(res, ite(eq(tlen, "0"), s.T, ite(inplace, app("mk_slice", sarr, soff, n, scap), app("mk_slice", fresh, soff, n, app("+", soff, ncap))))))
	e.assume(app("slice_ok", res))
	e.note("append: when reallocating, elements beyond len in the new array are unspecified (Go zeroes them)")
	return Val{T: res}
}

func (f *Frame) builtinCopy(b *ssa.BasicBlock, in *ssa.Call, c *ssa.CallCommon, args []Val, st *State, g string) Val {
	e := f.e
	d, s := args[0], args[1]
	sl := c.Args[0].Type().Underlying().(*types.Slice)
	h := e.arrHeap(sl.Elem())
	es := e.sortOf(sl.Elem())
	hname := "copy"
	if in != nil {
		hname = f.name(in)
	}
	var slen string
	isStr := false
	if bt, ok := c.Args[1].Type().Underlying().(*types.Basic); ok && bt.Info()&types.IsString != 0 {
		isStr = true
		slen = app("str_len", s.T)
	} else {
		slen = app("s_len", s.T)
	}
	n := e.freshConst(hname+"_n", "Int")
	e.assume(eq(n, ite(app("<=", app("s_len", d.T), slen), app("s_len", d.T), slen)))
	darr, doff := app("s_arr", d.T), app("s_off", d.T)
	old := sel(st.H(h), darr)
	cc := e.freshConst(hname+"_content", "(Array Int "+es+")")
	i := e.fresh("i!cp")
	var src string
	if isStr {
		src = app("str_at", s.T, app("-", i, doff))
	} else {
		src = sel(sel(st.H(h), app("s_arr", s.T)), app("+", app("s_off", s.T), app("-", i, doff)))
	}
	e.assume(fmt.Sprintf("(forall ((%s Int)) (! (= (select %s %s) (ite (and (<= %s %s) (< %s (+ %s %s))) %s (select %s %s))) :pattern ((select %s %s))))",
		i, cc, i, doff, i, i, doff, n, src, old, i, cc, i))
	if es == "Str" && !isStr && e.declared["seq$Str"] {
		// instance of lemma SPLICE for the idiom copy(s[p:], s[p+1:]) (same array, source one position ahead):
		// the new contents are the old ones with position p removed
		lo, h1 := e.fresh("lo!sp"), e.fresh("h1!sp")
		p0 := doff
		hi := app("+", doff, n, "1")
		cond := and(eq(darr, app("s_arr", s.T)), eq(app("s_off", s.T), app("+", doff, "1")), app(">=", n, "0"))
		ob := app("bagS", old, lo, hi)
		e.assume(implies(cond, fmt.Sprintf("(forall ((%s Int) (%s Int)) (! (=> (and (<= %s %s) (= %s (- %s 1))) (= (bagS %s %s %s) (store %s (select %s %s) (- (select %s (select %s %s)) 1)))) :pattern ((bagS %s %s %s)) :qid splice_site))",
			lo, h1, lo, p0, h1, hi, cc, lo, h1, ob, old, p0, ob, old, p0, cc, lo, h1)))
	}
	f.setHeap(st, h, sto(st.H(h), darr, cc))
	return Val{T: n}
}

// mutexHeld returns the lvalue of the ghost "held" flag of a sync.Mutex location.
func (f *Frame) mutexHeld(lv *LVal) *LVal {
	// sync.Mutex is modelled as a struct whose first field (state int32) is non-zero iff held
	mt := lv.T
	st, ok := isStruct(mt)
	if !ok || st.NumFields() == 0 {
		fail("mutexHeld: not a mutex location")
	}
	n := *lv
	n.Path = append(append([]step{}, lv.Path...), step{structT: mt, field: 0})
	n.T = st.Field(0).Type()
	// sync.RWMutex{w Mutex; ...}: the flag is the state word of the embedded mutex
	for {
		inner, ok := isStruct(n.T)
		if !ok || inner.NumFields() == 0 {
			break
		}
		n.Path = append(n.Path, step{structT: n.T, field: 0})
		n.T = inner.Field(0).Type()
	}
	return &n
}

// needsWriteLock: does the function write objects that existed before the call (anything but what it allocates itself)
func needsWriteLock(prog *ssa.Program, callee *ssa.Function) bool {
	return len(mayWriteOldKeys(prog, callee)) > 0
}

// usedForWrite: is the address (of a guarded field) stored through, or is the map / slice loaded from it updated
func usedForWrite(v ssa.Value) bool {
	refs := v.Referrers()
	if refs == nil {
		return false
	}
	for _, r := range *refs {
		switch r := r.(type) {
		case *ssa.Store:
			if r.Addr == v {
				return true
			}
		case *ssa.UnOp:
			if r.Op == token.MUL {
				if rr := r.Referrers(); rr != nil {
					for _, u := range *rr {
						switch u := u.(type) {
						case *ssa.MapUpdate:
							if u.Map == r {
								return true
							}
						case *ssa.Call:
							if bi, ok := u.Call.Value.(*ssa.Builtin); ok && bi.Name() == "delete" && len(u.Call.Args) > 0 && u.Call.Args[0] == r {
								return true
							}
						}
					}
				}
			}
		case *ssa.FieldAddr:
			if usedForWrite(r) {
				return true
			}
		}
	}
	return false
}

type pureTerm struct {
	term    string
	nilOnly bool
}

// pureTerms: the results of a function declared pure, as uninterpreted functions of its
// arguments and of every heap it may read (determinism of Go code; assumed, listed in the evidence).
func (f *Frame) pureTerms(callee *ssa.Function, args []Val, st *State) []pureTerm {
	e := f.e
	e.note("assumed: " + funcFull(callee) + " (declared pure) is deterministic: its non-reference results are functions of its arguments and of the heaps it may read")
	keys := mayReadKeys(e.prog, callee)
	if _, all := keys["*"]; all {
		fail("pure function %s makes dynamic calls", callee)
	}
	var argSorts, argTerms []string
	for i, p := range callee.Params {
		if args[i].LV != nil {
			fail("pure function %s called with interior pointer", callee)
		}
		argSorts = append(argSorts, e.sortOf(p.Type()))
		argTerms = append(argTerms, args[i].T)
	}
	var ids []string
	for id := range keys {
		ids = append(ids, id)
	}
	sort.Strings(ids)
	for _, id := range ids {
		k := keys[id]
		if k.kind == 'M' && mapReadsOnParams(e.prog, callee, k.t) {
			// depends on this map type only through the contents of its map-typed parameters
			md, mv := e.mapHeaps(k.t)
			mt := k.t.Underlying().(*types.Map)
			for i, p := range callee.Params {
				if types.Identical(p.Type().Underlying(), k.t) {
					argSorts = append(argSorts, "(Array "+e.sortOf(mt.Key())+" Bool)", "(Array "+e.sortOf(mt.Key())+" "+e.sortOf(mt.Elem())+")")
					argTerms = append(argTerms, sel(st.H(md), args[i].T), sel(st.H(mv), args[i].T))
				}
			}
			continue
		}
		for _, h := range e.keyNames(map[string]hkey{id: k}) {
			argSorts = append(argSorts, e.heapSort[h])
			argTerms = append(argTerms, st.H(h))
		}
	}
	rs := callee.Signature.Results()
	var out []pureTerm
	for i := 0; i < rs.Len(); i++ {
		srt := e.sortOf(rs.At(i).Type())
		name := fmt.Sprintf("pure$%s$%d", sanitize(funcFull(callee)), i)
		switch srt {
		case "Str", "Bool":
			e.declRaw(name, fmt.Sprintf("(declare-fun %s (%s) %s)", name, strings.Join(argSorts, " "), srt))
			out = append(out, pureTerm{term: app(name, argTerms...)})
		case "Int":
			if isRefLike(rs.At(i).Type()) {
				out = append(out, pureTerm{})
			} else {
				e.declRaw(name, fmt.Sprintf("(declare-fun %s (%s) %s)", name, strings.Join(argSorts, " "), srt))
				out = append(out, pureTerm{term: app(name, argTerms...)})
			}
		case "Iface":
			e.declRaw(name, fmt.Sprintf("(declare-fun %s (%s) Bool)", name, strings.Join(argSorts, " ")))
			out = append(out, pureTerm{term: app(name, argTerms...), nilOnly: true})
		default:
			out = append(out, pureTerm{})
		}
	}
	return out
}

// guardedArg: index of the first argument whose type is a pointer to a struct with a guarded declaration.
func (f *Frame) guardedArg(callee *ssa.Function, args []Val) (int, *GuardSpec) {
	for i, p := range callee.Params {
		if gs := f.e.guardOf(p.Type()); gs != nil && i < len(args) {
			return i, gs
		}
	}
	return -1, nil
}

func (e *Enc) guardOf(t types.Type) *GuardSpec {
	pt, ok := t.Underlying().(*types.Pointer)
	if !ok {
		return nil
	}
	n, ok := pt.Elem().(*types.Named)
	if !ok || n.Obj().Pkg() == nil {
		return nil
	}
	for _, g := range e.specs.guards {
		if g.Pkg == n.Obj().Pkg().Path() && g.Struct == n.Obj().Name() {
			return g
		}
	}
	return nil
}

// mutexOf: lvalue of the guarding mutex field of object x (pointer to a guarded struct)
func (f *Frame) mutexOf(x Val, ptrT types.Type, gs *GuardSpec) *LVal {
	structT := ptrT.Underlying().(*types.Pointer).Elem()
	st, _ := isStruct(structT)
	for i := 0; i < st.NumFields(); i++ {
		if st.Field(i).Name() == gs.Mutex {
			return &LVal{Heap: f.e.fieldHeap(structT, i), Ref: x.T, BaseT: st.Field(i).Type(), T: st.Field(i).Type()}
		}
	}
	fail("guarded struct %s has no field %s", gs.Struct, gs.Mutex)
	return nil
}

// lockContractCall: lock-discipline contract of a function that receives a guarded object:
// it must be called with the mutex not held (or held, when annotated lockheld) and returns with the same state.
func (f *Frame) lockContractCall(b *ssa.BasicBlock, in *ssa.Call, callee *ssa.Function, args []Val, gi int, gs *GuardSpec, st *State, g string, rs *types.Tuple) Val {
	e := f.e
	held := f.mutexHeld(f.mutexOf(args[gi], callee.Params[gi].Type(), gs))
	cur := f.loadLV(st, held)
	sp := f.specOf(callee)
	want := eq(cur, "0")
	what := "called while the mutex is held (it locks itself: self-deadlock)"
	if sp != nil && sp.LockHeld {
		want = not(eq(cur, "0"))
		what = "requires the mutex to be held by the caller"
	}
	f.oblige("lock", f.oblName(fmt.Sprintf("%s:lock@%s#%d", funcDisplay(f.fn), funcDisplay(callee), f.callSite(callee))), g, want, funcDisplay(callee)+" "+what, []string{"C11"}, posOf(in))
	e.assume(implies(g, want))
	return f.resultVal(sanitize(callee.Name()), rs)
}

// mentionsGhost: does the expression use one of the contract's ghostcount functions
func mentionsGhost(n *Node, sp *FuncSpec) bool {
	if n == nil || len(sp.Ghosts) == 0 {
		return false
	}
	if n.Kind == "call" {
		for _, g := range sp.Ghosts {
			if g.Name == n.Name {
				return true
			}
		}
	}
	for _, a := range n.Args {
		if mentionsGhost(a, sp) {
			return true
		}
	}
	for _, ts := range n.Trigs {
		for _, t := range ts {
			if mentionsGhost(t, sp) {
				return true
			}
		}
	}
	return false
}

// keepPreexisting: after the may-write set of an opaque (or partial-contract) callee has been havoced, the heaps that the
// callee and everything it can call write only on objects allocated by the very function that writes them (the
// may-write analysis' "writes to pre-existing objects" set does not contain them) keep the state of every object that
// existed before the call.
func (f *Frame) keepPreexisting(callee *ssa.Function, before, after *State, g string) {
	e := f.e
	old := map[string]bool{}
	keys := mayWriteOldKeys(e.prog, callee)
	if _, all := keys["*"]; all {
		return
	}
	for _, h := range e.keyNames(keys) {
		old[h] = true
	}
	for _, h := range e.mayWriteNames(callee) {
		if old[h] || strings.HasPrefix(h, "G$") {
			continue
		}
		if pi, ok := e.mapPair[h]; ok && (old[pi.md] || old[pi.mv]) {
			continue
		}
		e.assume(implies(g, f.frameFact(h, nil, before, after, before.alloc)))
	}
}
