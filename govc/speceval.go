package main

// Typed evaluation of contract expressions to SMT terms over a (current, old) state pair.

import (
	"fmt"
	"go/token"
	"go/types"
	"strconv"
	"strings"

	"golang.org/x/tools/go/ssa"
)

type SV struct {
	T    string
	Sort string
	Ty   types.Type
	LV   *LVal
	Tup  []SV
	// special kinds
	IsNil   bool
	Content *mapContent // content(m)
	Seq     *seqView    // seq(s)
}

type mapContent struct {
	dom, val string
	ks, vs   string
	elemT    types.Type
}

type seqView struct {
	arr, lo, hi string // array content term, bounds
	es          string
}

type SpecCtx struct {
	f      *Frame
	pkg    *types.Package
	vars   map[string]SV
	cur    *State
	old    *State
	lookup func(name string) (SV, bool)
	inQ    int
	g      string // guard under which pure calls are executed
	block  *ssa.BasicBlock
	inTrig bool
	globalClause bool
	inOld  int
	callArgs map[string]SV // inside a callsite clause: the callee's parameters, written arg.<name>
	bound  map[string]bool // names bound by quantifiers / predicate parameters (never looked up as program variables)
}

func (c *SpecCtx) with(vars map[string]SV) *SpecCtx {
	n := *c
	n.vars = map[string]SV{}
	for k, v := range c.vars {
		n.vars[k] = v
	}
	n.bound = map[string]bool{}
	for k := range c.bound {
		n.bound[k] = true
	}
	for k, v := range vars {
		n.vars[k] = v
		n.bound[k] = true
	}
	return &n
}

func (e *Enc) svOfVal(v Val, t types.Type) SV {
	if tup, ok := t.(*types.Tuple); ok {
		var out []SV
		for i := 0; i < tup.Len(); i++ {
			out = append(out, e.svOfVal(v.Tup[i], tup.At(i).Type()))
		}
		return SV{Tup: out}
	}
	return SV{T: v.T, Sort: e.sortOf(t), Ty: t, LV: v.LV}
}

func boolSV(t string) SV { return SV{T: t, Sort: "Bool"} }
func intSV(t string) SV  { return SV{T: t, Sort: "Int"} }

func (c *SpecCtx) enc() *Enc { return c.f.e }

// resolveType parses a Go type text relative to the context package.
func (c *SpecCtx) resolveType(s string) types.Type {
	return resolveTypeIn(c.f.e.prog, c.pkg, s)
}

func resolveTypeIn(prog *ssa.Program, pkg *types.Package, s string) types.Type {
	s = strings.TrimSpace(s)
	switch {
	case strings.HasPrefix(s, "*"):
		return types.NewPointer(resolveTypeIn(prog, pkg, s[1:]))
	case strings.HasPrefix(s, "[]"):
		return types.NewSlice(resolveTypeIn(prog, pkg, s[2:]))
	case strings.HasPrefix(s, "["):
		i := strings.Index(s, "]")
		n, _ := strconv.Atoi(s[1:i])
		return types.NewArray(resolveTypeIn(prog, pkg, s[i+1:]), int64(n))
	case strings.HasPrefix(s, "map["):
		depth := 0
		for i := 3; i < len(s); i++ {
			if s[i] == '[' {
				depth++
			} else if s[i] == ']' {
				depth--
				if depth == 0 {
					return types.NewMap(resolveTypeIn(prog, pkg, s[4:i]), resolveTypeIn(prog, pkg, s[i+1:]))
				}
			}
		}
	case s == "interface{}":
		return types.NewInterfaceType(nil, nil)
	}
	if obj := types.Universe.Lookup(s); obj != nil {
		if tn, ok := obj.(*types.TypeName); ok {
			return tn.Type()
		}
	}
	if i := strings.Index(s, "."); i >= 0 {
		pn, tn := s[:i], s[i+1:]
		// imported by the context package under that name?
		var cands []*types.Package
		for _, p := range prog.AllPackages() {
			if p.Pkg.Name() == pn || qualifier(p.Pkg) == pn {
				cands = append(cands, p.Pkg)
			}
		}
		// prefer packages imported by pkg
		if pkg != nil {
			for _, imp := range pkg.Imports() {
				if imp.Name() == pn || qualifier(imp) == pn {
					if o := imp.Scope().Lookup(tn); o != nil {
						return o.Type()
					}
				}
			}
		}
		for _, p := range cands {
			if o := p.Scope().Lookup(tn); o != nil {
				return o.Type()
			}
		}
		fail("cannot resolve type %s", s)
	}
	if pkg != nil {
		if o := pkg.Scope().Lookup(s); o != nil {
			if _, ok := o.(*types.TypeName); ok {
				return o.Type()
			}
		}
	}
	// spec-level sorts
	switch s {
	case "Int":
		return types.Typ[types.Int]
	}
	fail("cannot resolve type %s", s)
	return nil
}

func (c *SpecCtx) eval(n *Node) SV {
	e := c.enc()
	switch n.Kind {
	case "int":
		return intSV(n.Name)
	case "str":
		return SV{T: e.strLit(n.Name), Sort: "Str", Ty: types.Typ[types.String]}
	case "bool":
		return boolSV(n.Name)
	case "nil":
		return SV{IsNil: true}
	case "ident":
		return c.ident(n.Name)
	case "old":
		if len(n.Args) != 1 {
			fail("old takes one argument")
		}
		c2 := *c
		c2.cur = c.old
		c2.inOld = c.inOld + 1
		return c2.eval(n.Args[0])
	case "unop":
		x := c.eval(n.Args[0])
		switch n.Op {
		case "!":
			return boolSV(not(x.T))
		case "-":
			return intSV(app("-", x.T))
		case "*":
			return c.deref(x)
		}
	case "cond":
		cnd, a, b := c.eval(n.Args[0]), c.eval(n.Args[1]), c.eval(n.Args[2])
		a, b = c.unifyNil(a, b)
		r := a
		r.T = ite(cnd.T, a.T, b.T)
		return r
	case "binop":
		return c.binop(n)
	case "field":
		if c.callArgs != nil && len(n.Args) == 1 && n.Args[0].Kind == "ident" && n.Args[0].Name == "arg" {
			v, ok := c.callArgs[n.Name]
			if !ok {
				fail("spec: callsite clause mentions arg.%s, which is not a parameter of the callee", n.Name)
			}
			return v
		}
		if len(n.Args) == 1 && n.Args[0].Kind == "ident" && n.Args[0].Name == "param" {
			// param.NAME: the parameter NAME (its entry value), for bodies that shadow it with a local of the same name
			if v, ok := c.vars[n.Name]; ok {
				if _, isLocal := c.vars["param"]; !isLocal {
					return v
				}
			}
		}
		if v, ok := c.qualifiedGlobal(n); ok {
			return v
		}
		return c.field(c.eval(n.Args[0]), n.Name)
	case "index":
		return c.index(c.eval(n.Args[0]), c.eval(n.Args[1]))
	case "slice":
		x := c.eval(n.Args[0])
		lo, hi := "0", ""
		if n.Args[1] != nil {
			lo = c.eval(n.Args[1]).T
		}
		if x.Sort == "Slice" {
			if n.Args[2] != nil {
				hi = c.eval(n.Args[2]).T
			} else {
				hi = app("s_len", x.T)
			}
			r := x
			r.T = app("mk_slice", app("s_arr", x.T), app("+", app("s_off", x.T), lo), app("-", hi, lo), app("-", app("s_cap", x.T), lo))
			return r
		}
		fail("slice expression on non-slice")
	case "quant":
		return c.quant(n)
	case "typeassert":
		x := c.eval(n.Args[0])
		t := c.resolveType(n.TypeS)
		return SV{T: e.unbox(t, app("i_val", x.T)), Sort: e.sortOf(t), Ty: t}
	case "call":
		return c.call(n)
	case "mcall":
		recv := c.eval(n.Args[0])
		if recv.Ty == nil {
			fail("spec: method call on untyped value")
		}
		var fn *ssa.Function
		for _, t := range []types.Type{recv.Ty, types.NewPointer(recv.Ty)} {
			ms := e.prog.MethodSets.MethodSet(t)
			for i := 0; i < ms.Len(); i++ {
				if ms.At(i).Obj().Name() == n.Name {
					fn = e.prog.MethodValue(ms.At(i))
				}
			}
			if fn != nil {
				break
			}
		}
		if fn == nil {
			fail("spec: no method %s on %s", n.Name, recv.Ty)
		}
		return c.callFn(fn, n.Name, n.Args)
	case "star":
		fail("x[*] is only allowed in modifies clauses")
	}
	fail("spec: cannot evaluate node kind %s", n.Kind)
	return SV{}
}

func (c *SpecCtx) ident(name string) SV {
	if c.lookup != nil && c.inOld == 0 {
		// inside the body (loop invariants, clauses at a return): a name denotes the variable's current value,
		// also for parameters that the function spilled to memory and reassigns (e.g. input.started)
		if _, bound := c.bound[name]; !bound {
			if v, ok := c.lookup(name); ok {
				if _, isResult := c.vars[name]; isResult && strings.HasPrefix(name, "result") {
					// a local variable named like the return value: the clause would silently talk about the local
					fail("spec: %q is ambiguous in %s (a local variable of that name shadows the return value; write result0)", name, c.f.fn)
				}
				return v
			}
		}
	}
	if v, ok := c.vars[name]; ok {
		return v
	}
	if c.lookup != nil {
		if v, ok := c.lookup(name); ok {
			return v
		}
	}
	// package-level constant or variable
	if c.pkg != nil {
		if o := c.pkg.Scope().Lookup(name); o != nil {
			switch o := o.(type) {
			case *types.Const:
				return c.constSV(o)
			case *types.Var:
				sp := c.f.e.prog.Package(c.pkg)
				if g, ok := sp.Members[name].(*ssa.Global); ok {
					if c.globalClause && globalAssigned(c.f.e.prog, g) {
						fail("global clause mentions %s, which is assigned outside package initialisation", name)
					}
					ref := c.f.e.globalRef(g)
					return c.deref(SV{T: ref, Sort: "Int", Ty: g.Type()})
				}
			}
		}
	}
	fail("spec: unknown identifier %q in %s", name, c.f.fn)
	return SV{}
}

// qualifiedGlobal: pkg.Name where pkg is a package imported by the function's package and is not shadowed by a
// parameter, bound variable or local
func (c *SpecCtx) qualifiedGlobal(n *Node) (SV, bool) {
	if len(n.Args) != 1 || n.Args[0].Kind != "ident" || c.pkg == nil {
		return SV{}, false
	}
	q := n.Args[0].Name
	if _, ok := c.vars[q]; ok {
		return SV{}, false
	}
	if c.lookup != nil {
		if _, ok := c.lookup(q); ok {
			return SV{}, false
		}
	}
	for _, imp := range c.pkg.Imports() {
		if imp.Name() != q {
			continue
		}
		o := imp.Scope().Lookup(n.Name)
		switch o := o.(type) {
		case *types.Const:
			return c.constSV(o), true
		case *types.Var:
			sp := c.f.e.prog.Package(imp)
			if sp == nil {
				return SV{}, false
			}
			if g, ok := sp.Members[n.Name].(*ssa.Global); ok {
				if c.globalClause && globalAssigned(c.f.e.prog, g) {
					fail("global clause mentions %s.%s, which is assigned outside package initialisation", q, n.Name)
				}
				ref := c.f.e.globalRef(g)
				return c.deref(SV{T: ref, Sort: "Int", Ty: g.Type()}), true
			}
		}
	}
	return SV{}, false
}

func (c *SpecCtx) constSV(o *types.Const) SV {
	e := c.enc()
	sc := ssa.NewConst(o.Val(), o.Type())
	t := o.Type()
	if b, ok := t.(*types.Basic); ok && b.Info()&types.IsUntyped != 0 {
		t = types.Default(t)
		sc = ssa.NewConst(o.Val(), t)
	}
	return SV{T: e.constTerm(sc), Sort: e.sortOf(t), Ty: t}
}

func (c *SpecCtx) deref(x SV) SV {
	e := c.enc()
	if x.LV != nil {
		return SV{T: c.f.loadLV(c.cur, x.LV), Sort: e.sortOf(x.LV.T), Ty: x.LV.T}
	}
	pt, ok := x.Ty.Underlying().(*types.Pointer)
	if !ok {
		fail("spec: deref of non-pointer")
	}
	return SV{T: c.f.load(c.cur, Val{T: x.T}, x.Ty), Sort: e.sortOf(pt.Elem()), Ty: pt.Elem()}
}

func (c *SpecCtx) field(x SV, name string) SV {
	e := c.enc()
	if x.Tup != nil {
		i, err := strconv.Atoi(name)
		if err != nil || i >= len(x.Tup) {
			fail("spec: bad tuple selector .%s", name)
		}
		return x.Tup[i]
	}
	if x.Ty == nil {
		fail("spec: field .%s of untyped term %s", name, x.T)
	}
	var structT types.Type
	viaPtr := false
	if pt, ok := x.Ty.Underlying().(*types.Pointer); ok {
		structT = pt.Elem()
		viaPtr = true
	} else {
		structT = x.Ty
	}
	st, ok := isStruct(structT)
	if !ok {
		fail("spec: field .%s of non-struct %s", name, x.Ty)
	}
	idx := -1
	for i := 0; i < st.NumFields(); i++ {
		if st.Field(i).Name() == name {
			idx = i
		}
	}
	if idx < 0 {
		fail("spec: no field %s in %s", name, structT)
	}
	ft := st.Field(idx).Type()
	if x.LV != nil {
		lv := *x.LV
		lv.Path = append(append([]step{}, lv.Path...), step{structT: structT, field: idx})
		lv.T = ft
		return SV{T: c.f.loadLV(c.cur, &lv), Sort: e.sortOf(ft), Ty: ft}
	}
	if viaPtr {
		return SV{T: sel(c.cur.H(e.fieldHeap(structT, idx)), x.T), Sort: e.sortOf(ft), Ty: ft}
	}
	return SV{T: c.f.applyStep(x.T, step{structT: structT, field: idx}), Sort: e.sortOf(ft), Ty: ft}
}

func (c *SpecCtx) index(x, k SV) SV {
	e := c.enc()
	if x.Ty != nil {
		switch t := x.Ty.Underlying().(type) {
		case *types.Map:
			md, mv := e.mapHeaps(t)
			// specification-level lookup: the stored value (unspecified for absent keys; guard with "k in m")
			_ = md
			return SV{T: sel(sel(c.cur.H(mv), x.T), k.T), Sort: e.sortOf(t.Elem()), Ty: t.Elem()}
		case *types.Slice:
			h := e.arrHeap(t.Elem())
			return SV{T: sel(sel(c.cur.H(h), app("s_arr", x.T)), app("sidx", app("s_off", x.T), k.T)), Sort: e.sortOf(t.Elem()), Ty: t.Elem()}
		case *types.Array:
			return SV{T: sel(x.T, k.T), Sort: e.sortOf(t.Elem()), Ty: t.Elem()}
		case *types.Basic:
			return intSV(app("str_at", x.T, k.T))
		}
	}
	if strings.HasPrefix(x.Sort, "(Array ") {
		// (Array K V): result sort = V
		return SV{T: sel(x.T, k.T), Sort: arrayValueSort(x.Sort)}
	}
	fail("spec: cannot index %s (sort %s)", x.T, x.Sort)
	return SV{}
}

func arrayValueSort(s string) string {
	// s = "(Array K V)"; K may be nested
	inner := strings.TrimSuffix(strings.TrimPrefix(s, "(Array "), ")")
	depth := 0
	for i, ch := range inner {
		switch ch {
		case '(':
			depth++
		case ')':
			depth--
		case ' ':
			if depth == 0 {
				return inner[i+1:]
			}
		}
	}
	return ""
}

func arrayKeySort(s string) string {
	inner := strings.TrimSuffix(strings.TrimPrefix(s, "(Array "), ")")
	depth := 0
	for i, ch := range inner {
		switch ch {
		case '(':
			depth++
		case ')':
			depth--
		case ' ':
			if depth == 0 {
				return inner[:i]
			}
		}
	}
	return ""
}

func (c *SpecCtx) unifyNil(a, b SV) (SV, SV) {
	if a.IsNil && !b.IsNil {
		a = c.nilOf(b)
	} else if b.IsNil && !a.IsNil {
		b = c.nilOf(a)
	}
	return a, b
}

func (c *SpecCtx) nilOf(x SV) SV {
	r := x
	switch x.Sort {
	case "Int":
		r.T = "0"
	case "Slice":
		r.T = "nil_slice"
	case "Iface":
		r.T = "nil_iface"
	default:
		fail("spec: nil compared with sort %s", x.Sort)
	}
	return r
}

func (c *SpecCtx) eqSV(a, b SV) string {
	if a.IsNil && b.IsNil {
		return "true"
	}
	if a.IsNil {
		a, b = b, a
	}
	if b.IsNil {
		if a.LV != nil && a.T == "INTERIOR" {
			return "false" // the address of a field or element is never nil
		}
		switch a.Sort {
		case "Int":
			return eq(a.T, "0")
		case "Slice":
			return eq(app("s_arr", a.T), "0")
		case "Iface":
			return eq(app("i_tag", a.T), "0")
		}
		fail("spec: nil compared with sort %s", a.Sort)
	}
	if a.Content != nil && b.Content != nil {
		// canonical map representation: contents are equal iff domain and value arrays are equal
		return and(eq(a.Content.dom, b.Content.dom), eq(a.Content.val, b.Content.val))
	}
	if a.Seq != nil && b.Seq != nil {
		e := c.enc()
		i := e.fresh("i!s")
		return and(eq(app("-", a.Seq.hi, a.Seq.lo), app("-", b.Seq.hi, b.Seq.lo)),
			fmt.Sprintf("(forall ((%s Int)) (! (=> (and (<= 0 %s) (< %s (- %s %s))) (= (select %s (sidx %s %s)) (select %s (sidx %s %s)))) :pattern ((select %s (sidx %s %s)))))",
				i, i, i, a.Seq.hi, a.Seq.lo, a.Seq.arr, a.Seq.lo, i, b.Seq.arr, b.Seq.lo, i, a.Seq.arr, a.Seq.lo, i))
	}
	if a.Tup != nil && b.Tup != nil && len(a.Tup) == len(b.Tup) {
		var cs []string
		for i := range a.Tup {
			cs = append(cs, c.eqSV(a.Tup[i], b.Tup[i]))
		}
		return and(cs...)
	}
	return eq(a.T, b.T)
}

func (c *SpecCtx) binop(n *Node) SV {
	switch n.Op {
	case "&&":
		return boolSV(and(c.eval(n.Args[0]).T, c.eval(n.Args[1]).T))
	case "||":
		return boolSV(or(c.eval(n.Args[0]).T, c.eval(n.Args[1]).T))
	case "==>":
		return boolSV(implies(c.eval(n.Args[0]).T, c.eval(n.Args[1]).T))
	case "<==>":
		return boolSV(eq(c.eval(n.Args[0]).T, c.eval(n.Args[1]).T))
	}
	a, b := c.eval(n.Args[0]), c.eval(n.Args[1])
	switch n.Op {
	case "==":
		return boolSV(c.eqSV(a, b))
	case "!=":
		return boolSV(not(c.eqSV(a, b)))
	case "in":
		if b.Ty != nil {
			if mt, ok := b.Ty.Underlying().(*types.Map); ok {
				md, _ := c.enc().mapHeaps(mt)
				return boolSV(sel(sel(c.cur.H(md), b.T), a.T))
			}
		}
		if strings.HasPrefix(b.Sort, "(Array ") {
			return boolSV(sel(b.T, a.T))
		}
		fail("spec: 'in' on %s", b.Sort)
	case "<", "<=", ">", ">=":
		if a.Sort == "Str" {
			return boolSV(app(n.Op, app("so", a.T), app("so", b.T)))
		}
		if a.Sort == "F64" { // the same uninterpreted float64 order the code's comparisons are encoded with
			switch n.Op {
			case "<":
				return boolSV(app("f64_lt", a.T, b.T))
			case "<=":
				return boolSV(app("f64_le", a.T, b.T))
			case ">":
				return boolSV(app("f64_lt", b.T, a.T))
			default:
				return boolSV(app("f64_le", b.T, a.T))
			}
		}
		return boolSV(app(n.Op, a.T, b.T))
	case "+":
		if a.Sort == "Str" {
			return SV{T: app("str_cat", a.T, b.T), Sort: "Str", Ty: a.Ty}
		}
		return intSV(app("+", a.T, b.T))
	case "-":
		return intSV(app("-", a.T, b.T))
	case "*":
		return intSV(app("*", a.T, b.T))
	case "/":
		return intSV(app("div", a.T, b.T))
	case "%":
		return intSV(app("mod", a.T, b.T))
	}
	fail("spec: unknown operator %s", n.Op)
	return SV{}
}

func (c *SpecCtx) quant(n *Node) SV {
	e := c.enc()
	vars := map[string]SV{}
	var binders []string
	for _, v := range n.Vars {
		var sv SV
		name := e.fresh(v.Name + "!q")
		if strings.HasPrefix(v.Type, "$") { // raw sort
			sv = SV{T: name, Sort: v.Type[1:]}
		} else {
			t := c.resolveType(v.Type)
			sv = SV{T: name, Sort: e.sortOf(t), Ty: t}
		}
		vars[v.Name] = sv
		binders = append(binders, fmt.Sprintf("(%s %s)", name, sv.Sort))
	}
	c2 := c.with(vars)
	c2.inQ = c.inQ + 1
	body := c2.eval(n.Args[0])
	q := "forall"
	if n.Op == "exists" {
		q = "exists"
	}
	if len(n.Trigs) > 0 {
		var pats []string
		for _, tr := range n.Trigs {
			var ts []string
			c3 := *c2
			c3.inTrig = true
			arith := false
			for _, t := range tr {
				tt := c3.eval(t).T
				if strings.Contains(tt, "(+ ") || strings.Contains(tt, "(- ") {
					arith = true // interpreted arithmetic inside a pattern does not match reliably: leave the choice to the solver
				}
				ts = append(ts, tt)
			}
			if !arith {
				pats = append(pats, ":pattern ("+strings.Join(ts, " ")+")")
			}
		}
		if len(pats) == 0 {
			return boolSV(fmt.Sprintf("(%s (%s) %s)", q, strings.Join(binders, " "), body.T))
		}
		e.uniq++
		return boolSV(fmt.Sprintf("(%s (%s) (! %s %s :qid spec_%s_%d))", q, strings.Join(binders, " "), body.T, strings.Join(pats, " "), sanitize(n.Vars[0].Name), e.uniq))
	}
	return boolSV(fmt.Sprintf("(%s (%s) %s)", q, strings.Join(binders, " "), body.T))
}

func (c *SpecCtx) call(n *Node) SV {
	e := c.enc()
	switch n.Name {
	case "len":
		x := c.eval(n.Args[0])
		if x.Seq != nil {
			return intSV(app("-", x.Seq.hi, x.Seq.lo))
		}
		if x.Ty != nil {
			switch t := x.Ty.Underlying().(type) {
			case *types.Slice:
				return intSV(app("s_len", x.T))
			case *types.Map:
				md, _ := e.mapHeaps(t)
				return intSV(app(cardFn(e.sortOf(t.Key())), sel(c.cur.H(md), x.T)))
			case *types.Basic:
				return intSV(app("str_len", x.T))
			case *types.Array:
				return intSV(itoa(int(t.Len())))
			}
		}
		if x.Sort == "Slice" {
			return intSV(app("s_len", x.T))
		}
		fail("spec: len of %s", x.Sort)
	case "cap":
		return intSV(app("s_cap", c.eval(n.Args[0]).T))
	case "dom":
		x := c.eval(n.Args[0])
		mt, ok := x.Ty.Underlying().(*types.Map)
		if !ok {
			fail("spec: dom of non-map")
		}
		md, _ := e.mapHeaps(mt)
		return SV{T: sel(c.cur.H(md), x.T), Sort: "(Array " + e.sortOf(mt.Key()) + " Bool)"}
	case "emptyset":
		t := c.resolveType(n.Args[0].Name)
		return SV{T: fmt.Sprintf("((as const (Array %s Bool)) false)", e.sortOf(t)), Sort: "(Array " + e.sortOf(t) + " Bool)"}
	case "emptyvals":
		t := c.resolveType(n.Args[0].Name)
		mt, ok := t.Underlying().(*types.Map)
		if !ok {
			fail("spec: emptyvals needs a map type")
		}
		return SV{T: e.constArray(e.sortOf(mt.Key()), e.sortOf(mt.Elem()), e.zero(mt.Elem())), Sort: "(Array " + e.sortOf(mt.Key()) + " " + e.sortOf(mt.Elem()) + ")"}
	case "with":
		x, k := c.eval(n.Args[0]), c.eval(n.Args[1])
		return SV{T: sto(x.T, k.T, "true"), Sort: x.Sort}
	case "without":
		x, k := c.eval(n.Args[0]), c.eval(n.Args[1])
		return SV{T: sto(x.T, k.T, "false"), Sort: x.Sort}
	case "upd":
		x, k, v := c.eval(n.Args[0]), c.eval(n.Args[1]), c.eval(n.Args[2])
		return SV{T: sto(x.T, k.T, v.T), Sort: x.Sort}
	case "card":
		x := c.eval(n.Args[0])
		return intSV(app(cardFn(arrayKeySort(x.Sort)), x.T))
	case "content":
		x := c.eval(n.Args[0])
		mt, ok := x.Ty.Underlying().(*types.Map)
		if !ok {
			fail("spec: content of non-map")
		}
		md, mv := e.mapHeaps(mt)
		return SV{Content: &mapContent{dom: sel(c.cur.H(md), x.T), val: sel(c.cur.H(mv), x.T), ks: e.sortOf(mt.Key()), vs: e.sortOf(mt.Elem()), elemT: mt.Elem()}}
	case "vals":
		x := c.eval(n.Args[0])
		mt, ok := x.Ty.Underlying().(*types.Map)
		if !ok {
			fail("spec: vals of non-map")
		}
		_, mv := e.mapHeaps(mt)
		return SV{T: sel(c.cur.H(mv), x.T), Sort: "(Array " + e.sortOf(mt.Key()) + " " + e.sortOf(mt.Elem()) + ")"}
	case "contentOf":
		d, v := c.eval(n.Args[0]), c.eval(n.Args[1])
		return SV{Content: &mapContent{dom: d.T, val: v.T, ks: arrayKeySort(d.Sort), vs: arrayValueSort(v.Sort)}}
	case "seq":
		x := c.eval(n.Args[0])
		st, ok := x.Ty.Underlying().(*types.Slice)
		if !ok {
			fail("spec: seq of non-slice")
		}
		h := e.arrHeap(st.Elem())
		return SV{Seq: &seqView{arr: sel(c.cur.H(h), app("s_arr", x.T)), lo: app("s_off", x.T), hi: app("+", app("s_off", x.T), app("s_len", x.T)), es: e.sortOf(st.Elem())}}
	case "fresh":
		x := c.eval(n.Args[0])
		r := c.refOf(x)
		return boolSV(and(app(">=", r, c.old.alloc), app("<", r, c.cur.alloc)))
	case "allocated":
		x := c.eval(n.Args[0])
		return boolSV(app("<", c.refOf(x), c.cur.alloc))
	case "arr":
		x := c.eval(n.Args[0])
		return intSV(app("s_arr", x.T))
	case "off":
		x := c.eval(n.Args[0])
		return intSV(app("s_off", x.T))
	case "isnil":
		x := c.eval(n.Args[0])
		return boolSV(c.eqSV(x, SV{IsNil: true}))
	case "typeis":
		x := c.eval(n.Args[0])
		if len(n.Args) != 2 || n.Args[1].Kind != "str" {
			fail("spec: typeis(x, \"T\")")
		}
		t := c.resolveType(n.Args[1].Name)
		return boolSV(eq(app("i_tag", x.T), itoa(e.tagOf(t))))
	case "tag":
		x := c.eval(n.Args[0])
		return intSV(app("i_tag", x.T))
	case "dynresult":
		// dynresult(fn, args...): the (first) result of the last call through a function value, if that call
		// was a call of fn with these arguments
		fn := c.eval(n.Args[0])
		sig, ok := fn.Ty.Underlying().(*types.Signature)
		if !ok || sig.Results().Len() == 0 {
			fail("spec: dynresult of a non-function or of a function without results")
		}
		e.heap("G$dyn", "Int")
		ts := []string{fn.T}
		for _, a := range n.Args[1:] {
			ts = append(ts, c.eval(a).T)
		}
		ts = append(ts, c.cur.H("G$dyn"))
		return SV{T: app(dynFnName(e, sig, 0), ts...), Sort: e.sortOf(sig.Results().At(0).Type()), Ty: sig.Results().At(0).Type()}
	case "exited":
		// exited(N): loop N of this function ran to completion (left through its header, not by break or return)
		if len(n.Args) != 1 || n.Args[0].Kind != "int" {
			fail("spec: exited(N) takes a loop ordinal")
		}
		k, _ := strconv.Atoi(n.Args[0].Name)
		return boolSV(c.cur.H(e.exitedHeap(k)))
	case "deepEqual":
		// deepEqual(x, y): reflect.DeepEqual of two interface values (uninterpreted; meaningful within one state only -
		// use it in bodyensures clauses)
		a, b := c.eval(n.Args[0]), c.eval(n.Args[1])
		e.declRaw("deep_equal", "(declare-fun deep_equal (Iface Iface) Bool)")
		return boolSV(app("deep_equal", a.T, b.T))
	case "dyncalls":
		// dyncalls(): have calls through function values happened since entry (epoch changed)
		e.heap("G$dyn", "Int")
		return boolSV(not(eq(c.cur.H("G$dyn"), c.old.H("G$dyn"))))
	case "wsnorm":
		// wsnorm(s): strings.Join(strings.Fields(s), " ") - the text with surrounding white space removed and inner runs collapsed
		x := c.eval(n.Args[0])
		e.declFields()
		return SV{T: app("str_join", app("fields_arr", x.T), "0", app("fields_len", x.T), e.strLit(" ")), Sort: "Str", Ty: types.Typ[types.String]}
	case "strContains":
		a, b := c.eval(n.Args[0]), c.eval(n.Args[1])
		e.declText()
		return boolSV(app("str_contains", a.T, b.T))
	case "strTrim":
		a := c.eval(n.Args[0])
		e.declText()
		return SV{T: app("str_trim", a.T), Sort: "Str", Ty: types.Typ[types.String]}
	case "reMatch":
		a, b := c.eval(n.Args[0]), c.eval(n.Args[1])
		e.declText()
		return boolSV(app("re_match", a.T, b.T))
	case "strJoin":
		// strJoin(s, sep): strings.Join of a string slice in the current state
		a, b := c.eval(n.Args[0]), c.eval(n.Args[1])
		e.declFields()
		h := e.arrHeap(types.Typ[types.String])
		return SV{T: app("str_join", sel(c.cur.H(h), app("s_arr", a.T)), app("s_off", a.T), app("s_len", a.T), b.T), Sort: "Str", Ty: types.Typ[types.String]}
	case "fmtv":
		// fmtv(b): fmt.Sprintf("%v", b) of a byte slice - an uninterpreted function of its bytes
		x := c.eval(n.Args[0])
		return SV{T: e.fmtBytes(c.cur, x.T), Sort: "Str", Ty: types.Typ[types.String]}
	case "bytesCmp":
		// bytesCmp(a, b): bytes.Compare of two byte slices in the current state, uninterpreted
		x, y := c.eval(n.Args[0]), c.eval(n.Args[1])
		return SV{T: e.bytesCmp(c.cur, x.T, y.T), Sort: "Int", Ty: types.Typ[types.Int]}
	case "formatFloat":
		// formatFloat(v): strconv.FormatFloat(v, 'f', -1, 64), uninterpreted
		x := c.eval(n.Args[0])
		e.declStrconv()
		return SV{T: app("fmt_float", x.T, "102", "(- 1)", "64"), Sort: "Str", Ty: types.Typ[types.String]}
	case "parseFloat":
		// parseFloat(s): the value strconv.ParseFloat(s, 64) returns, uninterpreted
		x := c.eval(n.Args[0])
		e.declStrconv()
		return SV{T: app("parse_float", x.T, "64"), Sort: "F64", Ty: types.Typ[types.Float64]}
	case "errIs":
		// errIs(err, target): the uninterpreted errors.Is relation
		a, b := c.eval(n.Args[0]), c.eval(n.Args[1])
		e.declErrIs()
		return boolSV(app("errors_is", a.T, b.T))
	case "sorted":
		x := c.eval(n.Args[0])
		sv := c.seqOf(x)
		e.needSeq(sv.es)
		return boolSV(app("sorted"+seqSuffix(sv.es), sv.arr, sv.lo, sv.hi))
	case "bag":
		x := c.eval(n.Args[0])
		sv := c.seqOf(x)
		e.needSeq(sv.es)
		return SV{T: app("bag"+seqSuffix(sv.es), sv.arr, sv.lo, sv.hi), Sort: "(Array " + sv.es + " Int)"}
	case "ind":
		x := c.eval(n.Args[0])
		ks := arrayKeySort(x.Sort)
		e.needSeq(ks)
		return SV{T: app("ind"+seqSuffix(ks), x.T), Sort: "(Array " + ks + " Int)"}
	case "bagv":
		x := c.eval(n.Args[0])
		mt, ok := x.Ty.Underlying().(*types.Map)
		if !ok {
			fail("spec: bagv of non-map")
		}
		md, mv := e.mapHeaps(mt)
		if e.sortOf(mt.Key()) != "Str" || e.sortOf(mt.Elem()) != "Str" {
			fail("spec: bagv is defined for map[string]string only")
		}
		e.needSeq("Str")
		return SV{T: app("bagvS", sel(c.cur.H(md), x.T), sel(c.cur.H(mv), x.T)), Sort: "(Array Str Int)"}
	case "held":
		// held(mu): ghost lock state of a sync.Mutex location
		x := c.eval1LV(n.Args[0])
		return boolSV(not(eq(c.f.loadLV(c.cur, c.f.mutexHeld(x)), "0")))
	case "nth":
		x := c.eval(n.Args[0])
		i, _ := strconv.Atoi(n.Args[1].Name)
		return x.Tup[i]
	case "ite":
		cnd, a, b := c.eval(n.Args[0]), c.eval(n.Args[1]), c.eval(n.Args[2])
		a, b = c.unifyNil(a, b)
		r := a
		r.T = ite(cnd.T, a.T, b.T)
		return r
	case "domHeap", "valHeap":
		x := c.eval(n.Args[0])
		mt, ok := x.Ty.Underlying().(*types.Map)
		if !ok {
			fail("spec: %s of non-map", n.Name)
		}
		md, mv := e.mapHeaps(mt)
		if n.Name == "domHeap" {
			return SV{T: c.cur.H(md), Sort: e.heapSort[md]}
		}
		return SV{T: c.cur.H(mv), Sort: e.heapSort[mv]}
	case "sdkValidate":
		x := c.eval(n.Args[0])
		e.declRaw("sdkValidate", "(declare-fun sdkValidate (Int) Iface)\n(assert (forall ((r Int)) (! (iface_ok (sdkValidate r)) :pattern ((sdkValidate r)))))")
		return SV{T: app("sdkValidate", x.T), Sort: "Iface"}
	case "unchangedAll":
		// every object that existed at entry has its entry state, in every heap (the guarding mutexes excepted)
		entry := c.f.entry
		if entry == nil {
			entry = c.old
		}
		var cs []string
		for _, h := range e.heapOrder {
			skip := false
			for _, gs := range e.specs.guards {
				if strings.HasSuffix(h, "_"+gs.Struct+"$"+gs.Mutex) {
					skip = true
				}
			}
			if skip || c.cur.H(h) == entry.H(h) {
				continue
			}
			if !strings.HasPrefix(e.heapSort[h], "(Array") {
				cs = append(cs, eq(c.cur.H(h), entry.H(h)))
				continue
			}
			r := e.fresh("r!ua")
			cs = append(cs, fmt.Sprintf("(forall ((%s Int)) (! (=> (< %s %s) (= (select %s %s) (select %s %s))) :pattern ((select %s %s)) :qid unchangedAll))", r, r, entry.alloc, c.cur.H(h), r, entry.H(h), r, c.cur.H(h), r))
		}
		return boolSV(and(cs...))
	case "mapsUnchanged":
		// every map of the given type that existed at function entry has its entry contents
		t := c.resolveType(n.Args[0].Name)
		mt, ok := t.Underlying().(*types.Map)
		if !ok {
			fail("spec: mapsUnchanged needs a map type")
		}
		md, mv := e.mapHeaps(mt)
		r := e.fresh("r!mu")
		entry := c.f.entry
		if entry == nil {
			entry = c.old
		}
		return boolSV(fmt.Sprintf("(forall ((%s Int)) (! (=> (< %s %s) (and (= (select %s %s) (select %s %s)) (= (select %s %s) (select %s %s)))) :pattern ((select %s %s)) :pattern ((select %s %s)) :qid mapsUnchanged))",
			r, r, entry.alloc, c.cur.H(md), r, entry.H(md), r, c.cur.H(mv), r, entry.H(mv), r, c.cur.H(md), r, c.cur.H(mv), r))
	case "heapOf":
		h := n.Args[0].Name
		if _, ok := e.heapSort[h]; !ok {
			// declare pointer heaps on demand by their canonical name
			if strings.HasPrefix(h, "P$") {
				t := c.resolveType(h[2:])
				e.ptrHeap(t)
			}
		}
		if _, ok := e.heapSort[h]; !ok {
			fail("spec: unknown heap %s", h)
		}
		return SV{T: c.cur.H(h), Sort: e.heapSort[h]}
	case "heapEq":
		// heapEq("F$core_Table$Data"): the named heap is unchanged since entry
		h := n.Args[0].Name
		if _, ok := e.heapSort[h]; !ok {
			return boolSV("true")
		}
		return boolSV(eq(c.cur.H(h), c.old.H(h)))
	}
	if gname, ok := c.f.ghosts[n.Name]; ok {
		return intSV(app(gname, c.eval(n.Args[0]).T))
	}
	// raw SMT function declared with "smt" lines or spec functions
	if sf, ok := e.specs.specFuns[n.Name]; ok {
		var args []string
		for _, a := range n.Args {
			args = append(args, c.eval(a).T)
		}
		return SV{T: app(sf.Name, args...), Sort: sf.Ret}
	}
	if p, ok := e.specs.preds[n.Name]; ok {
		if len(p.Params) != len(n.Args) {
			fail("spec: predicate %s expects %d arguments", n.Name, len(p.Params))
		}
		vars := map[string]SV{}
		for i, prm := range p.Params {
			a := c.eval(n.Args[i])
			if a.IsNil {
				t := c.resolveType(prm.Type)
				a = c.nilOf(SV{Sort: e.sortOf(t), Ty: t})
			}
			if a.Ty == nil && !strings.HasPrefix(prm.Type, "$") {
				a.Ty = resolveTypeIn(e.prog, c.pkgOf(p.Pkg), prm.Type)
			}
			vars[prm.Name] = a
		}
		c2 := *c
		c2.vars = vars
		c2.lookup = nil
		c2.pkg = c.pkgOf(p.Pkg)
		return c2.eval(p.Body)
	}
	// pure Go function of the context package, executed symbolically
	return c.pureCall(n)
}

func (c *SpecCtx) pkgOf(path string) *types.Package {
	for _, p := range c.f.e.prog.AllPackages() {
		if p.Pkg.Path() == path {
			return p.Pkg
		}
	}
	return c.pkg
}

func (c *SpecCtx) refOf(x SV) string {
	if x.Sort == "Slice" {
		return app("s_arr", x.T)
	}
	if x.Sort == "Iface" {
		return app("i_val", x.T)
	}
	return x.T
}

func (c *SpecCtx) seqOf(x SV) *seqView {
	if x.Seq != nil {
		return x.Seq
	}
	e := c.enc()
	st, ok := x.Ty.Underlying().(*types.Slice)
	if !ok {
		fail("spec: sequence function on non-slice")
	}
	h := e.arrHeap(st.Elem())
	return &seqView{arr: sel(c.cur.H(h), app("s_arr", x.T)), lo: app("s_off", x.T), hi: app("+", app("s_off", x.T), app("s_len", x.T)), es: e.sortOf(st.Elem())}
}

// eval1LV evaluates an expression denoting a location (x.f) and returns its lvalue.
func (c *SpecCtx) eval1LV(n *Node) *LVal {
	e := c.enc()
	if n.Kind != "field" {
		fail("spec: expected a field location")
	}
	x := c.eval(n.Args[0])
	pt, ok := x.Ty.Underlying().(*types.Pointer)
	if !ok {
		fail("spec: location base must be a pointer")
	}
	st, _ := isStruct(pt.Elem())
	for i := 0; i < st.NumFields(); i++ {
		if st.Field(i).Name() == n.Name {
			ft := st.Field(i).Type()
			if x.LV != nil {
				lv := *x.LV
				lv.Path = append(append([]step{}, lv.Path...), step{structT: pt.Elem(), field: i})
				lv.T = ft
				return &lv
			}
			return &LVal{Heap: e.fieldHeap(pt.Elem(), i), Ref: x.T, BaseT: ft, T: ft}
		}
	}
	fail("spec: no field %s", n.Name)
	return nil
}

func (e *Enc) declErrIs() {
	if e.declared["errors_is"] {
		return
	}
	tag := e.tagOfName("*errors.errorString")
	e.declRaw("errors_is", fmt.Sprintf(`(declare-fun errors_is (Iface Iface) Bool)
(assert (forall ((a Iface)) (! (=> (not (= (i_tag a) 0)) (errors_is a a)) :pattern ((errors_is a a)) :qid erris_refl)))
(assert (forall ((b Iface)) (! (=> (not (= (i_tag b) 0)) (not (errors_is nil_iface b))) :pattern ((errors_is nil_iface b)) :qid erris_nil)))
(assert (forall ((a Iface) (b Iface)) (! (=> (= (i_tag a) %d) (= (errors_is a b) (= a b))) :pattern ((errors_is a b)) :qid erris_errorString)))`, tag))
}

// pureCall executes a Go function of the program symbolically (no side effects allowed).
func (c *SpecCtx) pureCall(n *Node) SV {
	e := c.enc()
	fn := e.findFunc(c.pkg, n.Name)
	if fn == nil {
		fail("spec: unknown function %s", n.Name)
	}
	return c.callFn(fn, n.Name, n.Args)
}

func (c *SpecCtx) callFn(fn *ssa.Function, name string, nargs []*Node) SV {
	e := c.enc()
	n := &Node{Name: name, Args: nargs}
	if sp := c.f.specOf(fn); sp != nil && sp.Pure {
		var args []Val
		for i, a := range n.Args {
			sv := c.eval(a)
			if sv.IsNil {
				sv = c.nilOf(SV{Sort: e.sortOf(fn.Params[i].Type())})
			}
			args = append(args, Val{T: sv.T, LV: sv.LV})
		}
		pv := c.f.pureTerms(fn, args, c.cur)
		rs := fn.Signature.Results()
		var out []SV
		for i := 0; i < rs.Len(); i++ {
			t := rs.At(i).Type()
			switch {
			case pv[i].nilOnly:
				out = append(out, SV{T: app("mk_iface", ite(pv[i].term, "0", "1"), "0"), Sort: "Iface", Ty: t})
			case pv[i].term != "":
				out = append(out, SV{T: pv[i].term, Sort: e.sortOf(t), Ty: t})
			default:
				fail("spec: result %d of pure function %s is a reference and cannot be used in specifications", i, n.Name)
			}
		}
		if len(out) == 1 {
			return out[0]
		}
		return SV{Tup: out}
	}
	if c.inQ > 0 {
		fail("spec: call to Go function %s inside a quantifier", n.Name)
	}
	var args []Val
	for i, a := range n.Args {
		sv := c.eval(a)
		if sv.IsNil {
			sv = c.nilOf(SV{Sort: e.sortOf(fn.Params[i].Type())})
		}
		args = append(args, Val{T: sv.T, LV: sv.LV})
	}
	st := c.cur.clone()
	g := c.g
	if g == "" {
		g = "true"
	}
	saveNP := e.nopanic
	e.nopanic = false
	res := c.f.inlineCall(fn, args, nil, st, g, nil)
	e.nopanic = saveNP
	rt := fn.Signature.Results()
	if rt.Len() == 1 {
		return e.svOfVal(res, rt.At(0).Type())
	}
	return e.svOfVal(res, rt)
}

func (e *Enc) findFunc(pkg *types.Package, name string) *ssa.Function {
	// name forms: f, T.m, (*T).m, pkg.f
	if pkg != nil {
		if sp := e.prog.Package(pkg); sp != nil {
			if fn, ok := sp.Members[name].(*ssa.Function); ok {
				return fn
			}
		}
	}
	for _, sp := range e.prog.AllPackages() {
		for _, m := range sp.Members {
			switch m := m.(type) {
			case *ssa.Function:
				if funcDisplay(m) == name || qualifier(sp.Pkg)+"."+m.Name() == name {
					return m
				}
			case *ssa.Type:
				for _, t := range []types.Type{m.Type(), types.NewPointer(m.Type())} {
					ms := e.prog.MethodSets.MethodSet(t)
					for i := 0; i < ms.Len(); i++ {
						fn := e.prog.MethodValue(ms.At(i))
						if fn != nil && (funcDisplay(fn) == name) && (pkg == nil || fn.Pkg == nil || fn.Pkg.Pkg == pkg) {
							return fn
						}
					}
				}
			}
		}
	}
	return nil
}

func seqSuffix(es string) string {
	if es == "Str" {
		return "S"
	}
	return "$" + sanitize(es)
}

var assignedGlobals map[*ssa.Global]bool

// loadedGlobal: v is the value of a package-level variable read directly (*g), possibly through conversions.
func loadedGlobal(v ssa.Value) *ssa.Global {
	for {
		switch x := v.(type) {
		case *ssa.UnOp:
			if x.Op == token.MUL {
				if g, ok := x.X.(*ssa.Global); ok {
					return g
				}
			}
			return nil
		case *ssa.ChangeType:
			v = x.X
		case *ssa.Global:
			return nil
		default:
			return nil
		}
	}
}

// globalAssigned: some function other than a package initialiser stores to the global.
func globalAssigned(prog *ssa.Program, g *ssa.Global) bool {
	if assignedGlobals == nil {
		assignedGlobals = map[*ssa.Global]bool{}
		for _, p := range prog.AllPackages() {
			if !strings.HasPrefix(p.Pkg.Path(), modulePath) {
				continue
			}
			var visit func(fn *ssa.Function)
			visit = func(fn *ssa.Function) {
				if fn.Name() != "init" {
					for _, b := range fn.Blocks {
						for _, in := range b.Instrs {
							// a store to the variable, or a write through its value: a field or element of the
							// object it points to, an entry of the map it holds (update or delete)
							switch in := in.(type) {
							case *ssa.Store:
								if gg, ok := in.Addr.(*ssa.Global); ok {
									assignedGlobals[gg] = true
								}
								switch a := in.Addr.(type) {
								case *ssa.FieldAddr:
									if gg := loadedGlobal(a.X); gg != nil {
										assignedGlobals[gg] = true
									}
								case *ssa.IndexAddr:
									if gg := loadedGlobal(a.X); gg != nil {
										assignedGlobals[gg] = true
									}
								}
							case *ssa.MapUpdate:
								if gg := loadedGlobal(in.Map); gg != nil {
									assignedGlobals[gg] = true
								}
							case *ssa.Call:
								if b, ok := in.Call.Value.(*ssa.Builtin); ok && (b.Name() == "delete" || b.Name() == "clear") && len(in.Call.Args) > 0 {
									if gg := loadedGlobal(in.Call.Args[0]); gg != nil {
										assignedGlobals[gg] = true
									}
								}
							}
						}
					}
				}
				for _, a := range fn.AnonFuncs {
					visit(a)
				}
			}
			for _, m := range p.Members {
				switch m := m.(type) {
				case *ssa.Function:
					visit(m)
				case *ssa.Type:
					for _, t := range []types.Type{m.Type(), types.NewPointer(m.Type())} {
						ms := prog.MethodSets.MethodSet(t)
						for i := 0; i < ms.Len(); i++ {
							if fn := prog.MethodValue(ms.At(i)); fn != nil {
								visit(fn)
							}
						}
					}
				}
			}
		}
	}
	return assignedGlobals[g]
}
