package main

// Encoder context: sorts, heaps, struct datatypes, literals, declarations.

import (
	"fmt"
	"regexp"
	"go/constant"
	"go/types"
	"sort"
	"strings"

	"golang.org/x/tools/go/ssa"
)

type toolError struct{ msg string }

func (t toolError) Error() string { return t.msg }

func fail(format string, a ...interface{}) {
	panic(toolError{fmt.Sprintf(format, a...)})
}

type Obligation struct {
	Name    string
	Kind    string // pre, post, inv.init, inv.keep, frame, safety, lemma, assert, decreases
	Func    string
	Tags    []string // property tags carried by the clause
	Clause  string   // source text of the clause
	Guard   string
	Goal    string
	NDecls  int
	NFacts  int
	Enc     *Enc
	Pos     string
	Extra   []string // extra assertions (local hypotheses)
	Cases   []string // path case split: each case guard is asserted in turn when the undivided query fails
	Expect  string   // "" (must prove) | "fail" (self-test: must not prove)
	Concrete bool
}

type Enc struct {
	prog      *ssa.Program
	specs     *SpecDB
	decls     []string
	declared  map[string]bool
	facts     []string
	heapSort  map[string]string // heap name -> sort
	heapOrder []string
	tags      map[string]int
	tagTypes  []types.Type
	lits      map[string]string
	litOrder  []string
	uniq      int
	obls      []*Obligation
	notes     map[string]bool // assumptions recorded (externs used, etc.)
	structs   map[string]bool
	nopanic   bool // emit safety obligations
	property  string // the property whose clauses are being checked ("" = all)
	curFunc   string
	funcsUsed map[string]string // function -> status (contract/inlined/extern/assumed)
	namedCache     []types.Type
	nilDom         map[string]string
	mapPair        map[string]*mapPairInfo // MD or MV heap name -> pair
	entryAlloc     bool // alloc!0 exists: entry-state closure axioms are emitted
	lockDiscipline bool
	inlineBudget   int
	callPolicy     string // "" (contracts + inlining) | "shallow" (contracts; other module calls skipped) | "lock"
}

func newEnc(prog *ssa.Program, specs *SpecDB) *Enc {
	e := &Enc{prog: prog, specs: specs, declared: map[string]bool{}, heapSort: map[string]string{}, tags: map[string]int{},
		lits: map[string]string{}, nilDom: map[string]string{}, mapPair: map[string]*mapPairInfo{}, notes: map[string]bool{}, structs: map[string]bool{}, funcsUsed: map[string]string{}}
	e.inlineBudget = 80
	e.decls = append(e.decls, preludeBase)
	for _, d := range specs.preludeDecls {
		e.decls = append(e.decls, d)
	}
	return e
}

const preludeBase = `(set-option :produce-models true)
(set-logic ALL)
(declare-sort Str 0)
(declare-fun so (Str) Real)
(declare-fun sinv (Real) Str)
(declare-const str_empty Str)
(assert (forall ((a Str)) (! (= (sinv (so a)) a) :pattern ((so a)))))
(assert (forall ((a Str)) (! (>= (so a) 0.0) :pattern ((so a)))))
(assert (= (so str_empty) 0.0))
(declare-fun str_len (Str) Int)
(assert (forall ((a Str)) (! (>= (str_len a) 0) :pattern ((str_len a)))))
(assert (forall ((a Str)) (! (= (= (str_len a) 0) (= a str_empty)) :pattern ((str_len a)))))
(declare-fun str_cat (Str Str) Str)
(assert (forall ((a Str) (b Str)) (! (= (str_len (str_cat a b)) (+ (str_len a) (str_len b))) :pattern ((str_cat a b)))))
(assert (forall ((a Str)) (! (= (str_cat a str_empty) a) :pattern ((str_cat a str_empty)))))
(assert (forall ((a Str)) (! (= (str_cat str_empty a) a) :pattern ((str_cat str_empty a)))))
(declare-fun str_at (Str Int) Int)
(assert (forall ((a Str) (i Int)) (! (and (<= 0 (str_at a i)) (<= (str_at a i) 255)) :pattern ((str_at a i)))))
(declare-fun str_sub (Str Int Int) Str)
(assert (forall ((a Str) (i Int) (j Int)) (! (=> (and (<= 0 i) (<= i j) (<= j (str_len a))) (= (str_len (str_sub a i j)) (- j i))) :pattern ((str_sub a i j)))))
(declare-fun str_of_byte (Int) Str)
(assert (forall ((b Int)) (! (= (str_len (str_of_byte b)) 1) :pattern ((str_of_byte b)))))
(declare-sort F64 0)
(declare-fun f64_of_int (Int) F64)
(declare-fun int_of_f64 (F64) Int)
(declare-fun f64_add (F64 F64) F64)
(declare-fun f64_sub (F64 F64) F64)
(declare-fun f64_mul (F64 F64) F64)
(declare-fun f64_div (F64 F64) F64)
(declare-fun f64_lt (F64 F64) Bool)
(declare-fun f64_le (F64 F64) Bool)
(declare-fun f64_neg (F64) F64)
(declare-const f64_zero F64)
(declare-datatypes ((Slice 0)) (((mk_slice (s_arr Int) (s_off Int) (s_len Int) (s_cap Int)))))
(declare-datatypes ((Iface 0)) (((mk_iface (i_tag Int) (i_val Int)))))
(define-fun nil_slice () Slice (mk_slice 0 0 0 0))
(define-fun nil_iface () Iface (mk_iface 0 0))
(define-fun slice_ok ((s Slice)) Bool (and (>= (s_arr s) 0) (>= (s_off s) 0) (>= (s_len s) 0) (>= (s_cap s) (s_len s)) (=> (= (s_arr s) 0) (= s nil_slice))))
(declare-fun sidx (Int Int) Int)
(assert (forall ((o Int) (j Int)) (! (= (sidx o j) (+ o j)) :pattern ((sidx o j)) :qid sidx_def)))
(define-fun iface_ok ((i Iface)) Bool (and (>= (i_tag i) 0) (=> (= (i_tag i) 0) (= (i_val i) 0))))
`

func (e *Enc) fresh(prefix string) string {
	e.uniq++
	return fmt.Sprintf("%s!%d", prefix, e.uniq)
}

func (e *Enc) declConst(name, sort string) string {
	if e.declared[name] {
		return name
	}
	e.declared[name] = true
	e.decls = append(e.decls, fmt.Sprintf("(declare-const %s %s)", name, sort))
	return name
}

func (e *Enc) heapWF(c, sort string) {
	switch sort {
	case "(Array Int Slice)":
		e.assume(fmt.Sprintf("(forall ((r Int)) (! (slice_ok (select %s r)) :pattern ((select %s r)) :qid wf_slice))", c, c))
	case "(Array Int Iface)":
		e.assume(fmt.Sprintf("(forall ((r Int)) (! (iface_ok (select %s r)) :pattern ((select %s r)) :qid wf_iface))", c, c))
	}
}

func (e *Enc) freshConst(prefix, sort string) string {
	c := e.declConst(e.fresh(sanitize(prefix)), sort)
	if _, isHeap := e.heapSort[prefix]; isHeap {
		e.heapWF(c, sort)
	}
	if nd, ok := e.nilDom[prefix]; ok {
		// a nil map has an empty domain in every heap version
		e.assume(eq(sel(c, "0"), nd))
	}
	return c
}

func (e *Enc) declRaw(key, text string) {
	if e.declared[key] {
		return
	}
	e.declared[key] = true
	e.decls = append(e.decls, text)
}

func (e *Enc) assume(fact string) {
	if fact == "true" {
		return
	}
	e.facts = append(e.facts, fact)
}

func (e *Enc) note(s string) { e.notes[s] = true }

// ---------------------------------------------------------------------------
// type naming

func qualifier(p *types.Package) string {
	path := p.Path()
	switch {
	case strings.HasSuffix(path, "aws-v1/client"):
		return "client1"
	case strings.HasSuffix(path, "aws-v2/client"):
		return "client2"
	case path == "github.com/truora/minidyn/types":
		return "mtypes"
	case strings.HasSuffix(path, "aws-sdk-go-v2/service/dynamodb/types"):
		return "ddb2types"
	case strings.HasSuffix(path, "aws-sdk-go-v2/service/dynamodb"):
		return "ddb2"
	case strings.HasSuffix(path, "aws-sdk-go/service/dynamodb"):
		return "ddb1"
	}
	return p.Name()
}

var anyWord = regexp.MustCompile(`\bany\b`)

func typeKey(t types.Type) string {
	// "any" is an alias of interface{}: one heap for both spellings
	return sanitize(anyWord.ReplaceAllString(types.TypeString(t, qualifier), "interface{}"))
}

func structName(t types.Type) string {
	if n, ok := t.(*types.Named); ok {
		return typeKey(n)
	}
	if a, ok := t.(*types.Alias); ok {
		return structName(types.Unalias(a))
	}
	s := types.TypeString(t, qualifier)
	h := 0
	for _, c := range s {
		h = (h*31 + int(c)) & 0xffffff
	}
	return fmt.Sprintf("anon%x", h)
}

func fieldName(st *types.Struct, i int) string {
	n := st.Field(i).Name()
	if n == "_" || n == "" {
		return fmt.Sprintf("f%d", i)
	}
	return n
}

func isStruct(t types.Type) (*types.Struct, bool) {
	s, ok := t.Underlying().(*types.Struct)
	return s, ok
}

func (e *Enc) sortOf(t types.Type) string {
	switch u := t.Underlying().(type) {
	case *types.Basic:
		switch {
		case u.Info()&types.IsBoolean != 0:
			return "Bool"
		case u.Info()&types.IsInteger != 0:
			return "Int"
		case u.Info()&types.IsString != 0:
			return "Str"
		case u.Info()&types.IsFloat != 0:
			return "F64"
		case u.Kind() == types.UnsafePointer:
			return "Int"
		case u.Kind() == types.UntypedNil:
			return "Int"
		}
		fail("unsupported basic type %s", t)
	case *types.Pointer, *types.Map, *types.Chan, *types.Signature:
		return "Int"
	case *types.Slice:
		return "Slice"
	case *types.Interface:
		return "Iface"
	case *types.Struct:
		return e.structSort(t)
	case *types.Array:
		return "(Array Int " + e.sortOf(u.Elem()) + ")"
	case *types.Tuple:
		fail("tuple has no sort")
	}
	fail("unsupported type %s", t)
	return ""
}

func (e *Enc) structSort(t types.Type) string {
	st, _ := isStruct(t)
	name := structName(t)
	sn := "S$" + name
	if e.structs[name] {
		return sn
	}
	e.structs[name] = true
	var fs []string
	for i := 0; i < st.NumFields(); i++ {
		fs = append(fs, fmt.Sprintf("(%s$%s %s)", name, fieldName(st, i), e.sortOf(st.Field(i).Type())))
	}
	if len(fs) == 0 {
		e.decls = append(e.decls, fmt.Sprintf("(declare-datatypes ((%s 0)) (((mk$%s))))", sn, name))
	} else {
		e.decls = append(e.decls, fmt.Sprintf("(declare-datatypes ((%s 0)) (((mk$%s %s))))", sn, name, strings.Join(fs, " ")))
	}
	return sn
}

func (e *Enc) zero(t types.Type) string {
	switch u := t.Underlying().(type) {
	case *types.Basic:
		switch {
		case u.Info()&types.IsBoolean != 0:
			return "false"
		case u.Info()&types.IsInteger != 0:
			return "0"
		case u.Info()&types.IsString != 0:
			return "str_empty"
		case u.Info()&types.IsFloat != 0:
			return "f64_zero"
		}
		return "0"
	case *types.Pointer, *types.Map, *types.Chan, *types.Signature:
		return "0"
	case *types.Slice:
		return "nil_slice"
	case *types.Interface:
		return "nil_iface"
	case *types.Struct:
		e.structSort(t)
		name := structName(t)
		if u.NumFields() == 0 {
			return "mk$" + name
		}
		var fs []string
		for i := 0; i < u.NumFields(); i++ {
			fs = append(fs, e.zero(u.Field(i).Type()))
		}
		return app("mk$"+name, fs...)
	case *types.Array:
		return e.constArray("Int", e.sortOf(u.Elem()), e.zero(u.Elem()))
	}
	fail("zero: unsupported type %s", t)
	return ""
}

// ---------------------------------------------------------------------------
// heaps

func (e *Enc) heap(name, sort string) string {
	if _, ok := e.heapSort[name]; !ok {
		e.heapSort[name] = sort
		e.heapOrder = append(e.heapOrder, name)
		e.declConst(name+"!0", sort)
		e.heapWF(name+"!0", sort)
	}
	return name
}

// exitedHeap: the flag "loop n was left through its header's exit edge" (false at function entry)
func (e *Enc) exitedHeap(n int) string {
	name := fmt.Sprintf("G$exited$%d", n)
	if _, ok := e.heapSort[name]; !ok {
		e.heap(name, "Bool")
		e.assume(not(name + "!0"))
	}
	return name
}

func (e *Enc) fieldHeap(structT types.Type, i int) string {
	st, _ := isStruct(structT)
	name := "F$" + structName(structT) + "$" + fieldName(st, i)
	_, known := e.heapSort[name]
	h := e.heap(name, "(Array Int "+e.sortOf(st.Field(i).Type())+")")
	if !known {
		e.entryClosed(h, st.Field(i).Type(), 1)
	}
	return h
}

func (e *Enc) ptrHeap(elem types.Type) string {
	name := "P$" + typeKey(elem)
	_, known := e.heapSort[name]
	h := e.heap(name, "(Array Int "+e.sortOf(elem)+")")
	if !known {
		e.entryClosed(h, elem, 1)
	}
	return h
}

func (e *Enc) arrHeap(elem types.Type) string {
	name := "A$" + typeKey(elem)
	_, known := e.heapSort[name]
	h := e.heap(name, "(Array Int (Array Int "+e.sortOf(elem)+"))")
	if !known {
		e.entryClosed(h, elem, 2)
	}
	return h
}

// entryClosed: at function entry every reference stored in the heap designates an allocated object
// (or nil, or a global): the entry heap is closed under reachability. depth = number of selects.
func (e *Enc) entryClosed(h string, elem types.Type, depth int) {
	if !e.entryAlloc {
		return
	}
	var proj string
	switch elem.Underlying().(type) {
	case *types.Pointer, *types.Map:
		proj = "%s"
	case *types.Slice:
		proj = "(s_arr %s)"
	case *types.Interface:
		proj = "(i_val %s)"
	default:
		return
	}
	h0 := h + "!0"
	if depth == 1 {
		t := fmt.Sprintf("(select %s r)", h0)
		e.assume(fmt.Sprintf("(forall ((r Int)) (! (< %s alloc!0) :pattern (%s) :qid closed1))", fmt.Sprintf(proj, t), t))
	} else {
		t := fmt.Sprintf("(select (select %s r) i)", h0)
		e.assume(fmt.Sprintf("(forall ((r Int) (i Int)) (! (< %s alloc!0) :pattern (%s) :qid closed2))", fmt.Sprintf(proj, t), t))
	}
}

func mapKey(m *types.Map) string { return typeKey(m) }

func (e *Enc) mapHeaps(mt types.Type) (string, string) {
	m := mt.Underlying().(*types.Map)
	k := mapKey(m)
	ks, vs := e.sortOf(m.Key()), e.sortOf(m.Elem())
	_, known := e.heapSort["MD$"+k]
	md := e.heap("MD$"+k, "(Array Int (Array "+ks+" Bool))")
	mv := e.heap("MV$"+k, "(Array Int (Array "+ks+" "+vs+"))")
	if !known {
		e.nilDom[md] = fmt.Sprintf("((as const (Array %s Bool)) false)", ks)
		e.assume(eq(sel(md+"!0", "0"), e.nilDom[md]))
		pi := &mapPairInfo{md: md, mv: mv, ks: ks, vs: vs, zero: e.zero(m.Elem())}
		e.mapPair[md] = pi
		e.mapPair[mv] = pi
		e.assume(e.canonical(pi, md+"!0", mv+"!0"))
		if e.entryAlloc {
			var proj string
			switch m.Elem().Underlying().(type) {
			case *types.Pointer, *types.Map:
				proj = "%s"
			case *types.Slice:
				proj = "(s_arr %s)"
			case *types.Interface:
				proj = "(i_val %s)"
			}
			if proj != "" {
				t := fmt.Sprintf("(select (select %s!0 r) k)", mv)
				e.assume(fmt.Sprintf("(forall ((r Int) (k %s)) (! (< %s alloc!0) :pattern (%s) :qid closedM))", ks, fmt.Sprintf(proj, t), t))
			}
		}
	}
	// card function for len(map)
	e.declRaw("card$"+ks, fmt.Sprintf("(declare-fun card$%s ((Array %s Bool)) Int)\n(assert (forall ((s (Array %s Bool))) (! (>= (card$%s s) 0) :pattern ((card$%s s)))))\n(assert (= (card$%s ((as const (Array %s Bool)) false)) 0))\n(assert (forall ((s (Array %s Bool)) (k %s)) (! (= (card$%s (store s k true)) (ite (select s k) (card$%s s) (+ (card$%s s) 1))) :pattern ((card$%s (store s k true))))))\n(assert (forall ((s (Array %s Bool)) (k %s)) (! (= (card$%s (store s k false)) (ite (select s k) (- (card$%s s) 1) (card$%s s))) :pattern ((card$%s (store s k false))))))\n(assert (forall ((s (Array %s Bool)) (k %s)) (! (=> (select s k) (>= (card$%s s) 1)) :pattern ((select s k) (card$%s s)))))\n(assert (forall ((s (Array %s Bool))) (! (=> (= (card$%s s) 0) (= s ((as const (Array %s Bool)) false))) :pattern ((card$%s s)))))",
		sanitize(ks), ks, ks, sanitize(ks), sanitize(ks), sanitize(ks), ks,
		ks, ks, sanitize(ks), sanitize(ks), sanitize(ks), sanitize(ks),
		ks, ks, sanitize(ks), sanitize(ks), sanitize(ks), sanitize(ks),
		ks, ks, sanitize(ks), sanitize(ks),
		ks, sanitize(ks), ks, sanitize(ks)))
	return md, mv
}

func cardFn(ks string) string { return "card$" + sanitize(ks) }

// ---------------------------------------------------------------------------
// type tags for interfaces

func (e *Enc) tagOf(t types.Type) int {
	k := types.TypeString(t, nil)
	if n, ok := e.tags[k]; ok {
		return n
	}
	n := len(e.tags) + 1
	e.tags[k] = n
	e.tagTypes = append(e.tagTypes, t)
	return n
}

// box / unbox for non-pointer dynamic types
func (e *Enc) box(t types.Type, term string) string {
	if isRefLike(t) {
		return term
	}
	s := e.sortOf(t)
	k := sanitize(s)
	e.declRaw("box$"+k, fmt.Sprintf("(declare-fun box$%s (%s) Int)\n(declare-fun unbox$%s (Int) %s)\n(assert (forall ((x %s)) (! (= (unbox$%s (box$%s x)) x) :pattern ((box$%s x)))))", k, s, k, s, s, k, k, k))
	return app("box$"+k, term)
}

func (e *Enc) unbox(t types.Type, term string) string {
	if isRefLike(t) {
		return term
	}
	s := e.sortOf(t)
	k := sanitize(s)
	e.box(t, "") // ensure decl
	return app("unbox$"+k, term)
}

func isRefLike(t types.Type) bool {
	switch t.Underlying().(type) {
	case *types.Pointer, *types.Map, *types.Chan, *types.Signature:
		return true
	}
	return false
}

// ---------------------------------------------------------------------------
// string literals

func (e *Enc) strLit(s string) string {
	if s == "" {
		return "str_empty"
	}
	if c, ok := e.lits[s]; ok {
		return c
	}
	c := fmt.Sprintf("lit!%d", len(e.lits))
	e.lits[s] = c
	e.decls = append(e.decls, fmt.Sprintf("(declare-const %s Str) ; %q", c, s))
	e.facts = append(e.facts, fmt.Sprintf("(= (str_len %s) %d)", c, len(s)))
	// order with respect to all earlier literals
	for _, o := range e.litOrder {
		oc := e.lits[o]
		if o < s {
			e.facts = append(e.facts, fmt.Sprintf("(< (so %s) (so %s))", oc, c))
		} else {
			e.facts = append(e.facts, fmt.Sprintf("(< (so %s) (so %s))", c, oc))
		}
	}
	e.litOrder = append(e.litOrder, s)
	sort.Strings(e.litOrder)
	for i := 0; i < len(s) && i < 8; i++ {
		e.facts = append(e.facts, fmt.Sprintf("(= (str_at %s %d) %d)", c, i, s[i]))
	}
	return c
}

func (e *Enc) constTerm(c *ssa.Const) string {
	t := c.Type()
	if c.Value == nil {
		return e.zero(t)
	}
	switch u := t.Underlying().(type) {
	case *types.Basic:
		switch {
		case u.Info()&types.IsBoolean != 0:
			if constant.BoolVal(c.Value) {
				return "true"
			}
			return "false"
		case u.Info()&types.IsInteger != 0:
			v := c.Value
			if v.Kind() != constant.Int {
				v = constant.ToInt(v)
			}
			s := v.ExactString()
			if strings.HasPrefix(s, "-") {
				return "(- " + s[1:] + ")"
			}
			return s
		case u.Info()&types.IsString != 0:
			return e.strLit(constant.StringVal(c.Value))
		case u.Info()&types.IsFloat != 0:
			k := "f64lit$" + sanitize(c.Value.ExactString())
			e.declConst(k, "F64")
			return k
		}
	}
	fail("unsupported constant %s of type %s", c, t)
	return ""
}

// constArray returns a term for the array mapping every index to v (cvc5 only accepts literal values in "as const").
func (e *Enc) constArray(ks, vs, v string) string {
	if v == "0" || v == "false" || v == "true" {
		return fmt.Sprintf("((as const (Array %s %s)) %s)", ks, vs, v)
	}
	name := "karr$" + sanitize(ks) + "$" + sanitize(vs) + "$" + sanitize(v)
	if !e.declared[name] {
		e.declared[name] = true
		e.decls = append(e.decls, fmt.Sprintf("(declare-const %s (Array %s %s))\n(assert (forall ((i %s)) (! (= (select %s i) %s) :pattern ((select %s i)))))", name, ks, vs, ks, name, v, name))
	}
	return name
}

type mapPairInfo struct{ md, mv, ks, vs, zero string }

// canonical: absent keys map to the zero value (representation invariant of the map model, so that
// two maps have equal contents iff their (domain, value) arrays are equal)
func (e *Enc) canonical(pi *mapPairInfo, mdT, mvT string) string {
	return fmt.Sprintf("(forall ((m Int) (k %s)) (! (=> (not (select (select %s m) k)) (= (select (select %s m) k) %s)) :pattern ((select (select %s m) k)) :qid canon))", pi.ks, mdT, mvT, pi.zero, mvT)
}

// canonAfterHavoc re-states the invariant for the map heaps among names (after they were havoced).
func (e *Enc) canonAfterHavoc(st *State, names []string) {
	done := map[*mapPairInfo]bool{}
	for _, n := range names {
		if pi, ok := e.mapPair[n]; ok && !done[pi] {
			done[pi] = true
			e.assume(e.canonical(pi, st.H(pi.md), st.H(pi.mv)))
		}
	}
}
