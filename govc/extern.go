package main

// Assumed contracts ("models") of functions outside the module. Each entry is
// part of the trusted base and is reported in the evidence when used.

import (
	"fmt"
	"os"
	"path/filepath"
	"go/types"

	"golang.org/x/tools/go/ssa"
)

type externFn func(f *Frame, b *ssa.BasicBlock, in *ssa.Call, args []Val, st *State, g string) Val
type invokeFn func(f *Frame, b *ssa.BasicBlock, in *ssa.Call, recv Val, args []Val, st *State, g string) Val

var externs = map[string]externFn{}
var invokeModels = map[string]invokeFn{}
var externWrites = map[string]func(fn *ssa.Function) []hkey{}

func strSliceKey(fn *ssa.Function) []hkey {
	return []hkey{{kind: 'A', t: types.Typ[types.String]}}
}

func noWrites(fn *ssa.Function) []hkey { return nil }

func hname(f *Frame, in *ssa.Call, d string) string {
	if in != nil {
		return f.name(in)
	}
	return f.id + "$" + d
}

func init() {
	// sort.Strings(s): in place; afterwards sorted, same bag, same length; nothing else written.
	externs["sort.Strings"] = func(f *Frame, b *ssa.BasicBlock, in *ssa.Call, args []Val, st *State, g string) Val {
		e := f.e
		e.note("assumed contract: sort.Strings sorts in place, preserves the multiset of elements, writes only s[0:len]")
		e.needSeq("Str")
		h := e.arrHeap(types.Typ[types.String])
		s := args[0].T
		arr, off, ln := app("s_arr", s), app("s_off", s), app("s_len", s)
		old := sel(st.H(h), arr)
		nc := e.freshConst(hname(f, in, "sorted")+"_content", "(Array Int Str)")
		lo, hi := off, app("+", off, ln)
		e.assume(app("sortedS", nc, lo, hi))
		e.assume(eq(app("bagS", nc, lo, hi), app("bagS", old, lo, hi)))
		i := e.fresh("i!so")
		e.assume(fmt.Sprintf("(forall ((%s Int)) (! (=> (or (< %s %s) (>= %s %s)) (= (select %s %s) (select %s %s))) :pattern ((select %s %s))))", i, i, lo, i, hi, nc, i, old, i, nc, i))
		f.setHeap(st, h, sto(st.H(h), arr, nc))
		return Val{}
	}
	externWrites["sort.Strings"] = strSliceKey

	// sort.SearchStrings(a, x): smallest index i in [0,len] with a[i] >= x, given a sorted.
	externs["sort.SearchStrings"] = func(f *Frame, b *ssa.BasicBlock, in *ssa.Call, args []Val, st *State, g string) Val {
		e := f.e
		e.note("assumed contract: sort.SearchStrings returns the least index whose element is >= x (for any input it returns some index in [0,len]; leastness only on sorted input)")
		e.needSeq("Str")
		h := e.arrHeap(types.Typ[types.String])
		s, x := args[0].T, args[1].T
		arr, off, ln := app("s_arr", s), app("s_off", s), app("s_len", s)
		c := sel(st.H(h), arr)
		r := e.freshConst(hname(f, in, "search")+"_pos", "Int")
		e.assume(and(app("<=", "0", r), app("<=", r, ln)))
		srt := app("sortedS", c, off, app("+", off, ln))
		i := e.fresh("i!ss")
		e.assume(implies(srt, and(
			implies(app("<", r, ln), app(">=", app("so", sel(c, app("+", off, r))), app("so", x))),
			fmt.Sprintf("(forall ((%s Int)) (! (=> (and (<= 0 %s) (< %s %s)) (< (so (select %s (+ %s %s))) (so %s))) :pattern ((select %s (+ %s %s)))))", i, i, i, r, c, off, i, x, c, off, i))))
		// consequence (lemma searchHit, proved in /verif/selftest/lemmas): on sorted input, if x occurs it is found
		lo, hi := off, app("+", off, ln)
		e.assume(implies(and(srt, app(">=", sel(app("bagS", c, lo, hi), x), "1")), and(app("<", r, ln), eq(sel(c, app("+", off, r)), x))))
		return Val{T: r}
	}
	externWrites["sort.SearchStrings"] = noWrites

	// errors.Is / errors.As / errors.New
	externs["errors.Is"] = func(f *Frame, b *ssa.BasicBlock, in *ssa.Call, args []Val, st *State, g string) Val {
		f.e.note("assumed contract: errors.Is is an uninterpreted relation, reflexive on non-nil errors, false for a nil error")
		f.e.declErrIs()
		return Val{T: app("errors_is", args[0].T, args[1].T)}
	}
	externWrites["errors.Is"] = noWrites
	externs["errors.New"] = func(f *Frame, b *ssa.BasicBlock, in *ssa.Call, args []Val, st *State, g string) Val {
		e := f.e
		e.note("assumed contract: errors.New returns a fresh non-nil error")
		r := f.allocRef(st, "err")
		tag := e.tagOfName("*errors.errorString")
		return Val{T: app("mk_iface", itoa(tag), r)}
	}
	externWrites["errors.New"] = noWrites
	// fmt.Errorf with %w: result wraps its error operand(s)
	externs["fmt.Errorf"] = func(f *Frame, b *ssa.BasicBlock, in *ssa.Call, args []Val, st *State, g string) Val {
		e := f.e
		e.note("assumed contract: fmt.Errorf returns a fresh non-nil error; errors.Is(result, x) holds for every error operand x of the variadic list (all uses in scope wrap with %w)")
		e.declErrIs()
		r := f.allocRef(st, "err")
		tag := e.tagOfName("*fmt.wrapError")
		res := e.freshConst(hname(f, in, "errorf"), "Iface")
		e.assume(eq(res, app("mk_iface", itoa(tag), r)))
		// operands: args[1] is []interface{}
		if len(args) > 1 && args[1].KLen > 0 {
			h := e.arrHeap(types.NewInterfaceType(nil, nil))
			for j := 0; j < args[1].KLen-1; j++ {
				op := sel(sel(st.H(h), app("s_arr", args[1].T)), app("+", app("s_off", args[1].T), itoa(j)))
				// if the operand is an error (any tag registered as error type) it is wrapped
				e.declRaw("is_error_tag", "(declare-fun is_error_tag (Int) Bool)")
				e.assume(implies(and(app("is_error_tag", app("i_tag", op)), not(eq(app("i_tag", op), "0"))), app("errors_is", res, op)))
				x := e.fresh("x!ew")
				e.assume(fmt.Sprintf("(forall ((%s Iface)) (! (=> (and (is_error_tag (i_tag %s)) (errors_is %s %s)) (errors_is %s %s)) :pattern ((errors_is %s %s))))", x, op, op, x, res, x, op, x))
			}
		}
		return Val{T: res}
	}
	externWrites["fmt.Errorf"] = noWrites
	externs["fmt.Sprintf"] = func(f *Frame, b *ssa.BasicBlock, in *ssa.Call, args []Val, st *State, g string) Val {
		f.e.note("assumed contract: fmt.Sprintf returns an unconstrained string, no heap effect")
		return Val{T: f.e.freshConst(hname(f, in, "sprintf"), "Str")}
	}
	externWrites["fmt.Sprintf"] = noWrites
	externs["fmt.Printf"] = func(f *Frame, b *ssa.BasicBlock, in *ssa.Call, args []Val, st *State, g string) Val {
		f.e.note("assumed contract: fmt.Printf has no effect on module memory")
		return Val{Tup: []Val{{T: f.e.freshConst("printf_n", "Int")}, {T: f.e.freshConst("printf_err", "Iface")}}}
	}
	externWrites["fmt.Printf"] = noWrites

	// sync.Mutex
	externs["(*sync.Mutex).Lock"] = func(f *Frame, b *ssa.BasicBlock, in *ssa.Call, args []Val, st *State, g string) Val {
		f.e.note("assumed contract: (*sync.Mutex).Lock requires the mutex not to be held by this call chain (non-reentrant), ensures held")
		lv := f.mutexLV(args[0])
		held := f.mutexHeld(lv)
		cur := f.loadLV(st, held)
		if f.e.lockDiscipline {
			f.oblige("lock", f.oblName(fmt.Sprintf("%s:lock-not-held#%d", funcDisplay(f.fn), f.callSiteN("lock"))), g, eq(cur, "0"), "mu.Lock() while already held (self-deadlock)", []string{"C11"}, posOf(in))
		}
		f.e.assume(implies(g, eq(cur, "0")))
		f.storeLV(st, held, "1")
		return Val{}
	}
	externs["(*sync.Mutex).Unlock"] = func(f *Frame, b *ssa.BasicBlock, in *ssa.Call, args []Val, st *State, g string) Val {
		f.e.note("assumed contract: (*sync.Mutex).Unlock requires held, ensures not held")
		lv := f.mutexLV(args[0])
		held := f.mutexHeld(lv)
		cur := f.loadLV(st, held)
		if f.e.lockDiscipline {
			f.oblige("lock", f.oblName(fmt.Sprintf("%s:unlock-held#%d", funcDisplay(f.fn), f.callSiteN("unlock"))), g, not(eq(cur, "0")), "mu.Unlock() of a mutex that is not held", []string{"C11"}, posOf(in))
		}
		f.storeLV(st, held, "0")
		return Val{}
	}
	externWrites["(*sync.Mutex).Lock"] = noWrites
	externWrites["(*sync.Mutex).Unlock"] = noWrites
}

func (e *Enc) tagOfName(name string) int {
	if n, ok := e.tags[name]; ok {
		return n
	}
	n := len(e.tags) + 1
	e.tags[name] = n
	e.tagTypes = append(e.tagTypes, types.Typ[types.Invalid])
	return n
}

func (f *Frame) mutexLV(p Val) *LVal {
	if p.LV != nil {
		return p.LV
	}
	fail("%s: mutex must be a struct field (&x.mu)", f.fn)
	return nil
}

func (f *Frame) callSiteN(k string) int {
	if f.siteN == nil {
		f.siteN = map[string]int{}
	}
	f.siteN[k]++
	return f.siteN[k]
}

// needSeq declares the sequence vocabulary (sorted, bag, ...) for element sort es from /verif/spec/seq_<sort>.smt2.
func (e *Enc) needSeq(es string) {
	k := sanitize(es)
	if e.declared["seq$"+k] {
		return
	}
	e.declared["seq$"+k] = true
	if es == "Str" {
		e.mapHeaps(types.NewMap(types.Typ[types.String], types.Typ[types.Bool])) // declares card$Str
	}
	data, err := os.ReadFile(filepath.Join(verifDir, "spec", "seq_"+k+".smt2"))
	if err != nil {
		fail("no sequence vocabulary for element sort %s: %v", es, err)
	}
	e.decls = append(e.decls, string(data))
}
