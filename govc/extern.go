package main

// Assumed contracts ("models") of functions outside the module. Each entry is
// part of the trusted base and is reported in the evidence when used.

import (
	"fmt"
	"sort"
	"strings"
	"os"
	"path/filepath"
	"go/types"

	"golang.org/x/tools/go/ssa"
)

type externFn func(f *Frame, b *ssa.BasicBlock, in *ssa.Call, args []Val, st *State, g string) Val
type invokeFn func(f *Frame, b *ssa.BasicBlock, in *ssa.Call, recv Val, args []Val, st *State, g string) Val

var externs = map[string]externFn{}
var invokeModels = map[string]invokeFn{}
var externWrites = map[string]func(fn *ssa.Function) []hkey{}

func strSliceKey(fn *ssa.Function) []hkey {
	return []hkey{{kind: 'A', t: types.Typ[types.String]}}
}

func noWrites(fn *ssa.Function) []hkey { return nil }

func hname(f *Frame, in *ssa.Call, d string) string {
	if in != nil {
		return f.name(in)
	}
	return f.id + "$" + d
}

func init() {
	// sort.Strings(s): in place; afterwards sorted, same bag, same length; nothing else written.
	externs["sort.Strings"] = func(f *Frame, b *ssa.BasicBlock, in *ssa.Call, args []Val, st *State, g string) Val {
		e := f.e
		e.note("assumed contract: sort.Strings sorts in place, preserves the multiset of elements, writes only s[0:len]")
		e.needSeq("Str")
		h := e.arrHeap(types.Typ[types.String])
		s := args[0].T
		arr, off, ln := app("s_arr", s), app("s_off", s), app("s_len", s)
		old := sel(st.H(h), arr)
		nc := e.freshConst(hname(f, in, "sorted")+"_content", "(Array Int Str)")
		lo, hi := off, app("+", off, ln)
		e.assume(app("sortedS", nc, lo, hi))
		e.assume(eq(app("bagS", nc, lo, hi), app("bagS", old, lo, hi)))
		i := e.fresh("i!so")
		e.assume(fmt.Sprintf("(forall ((%s Int)) (! (=> (or (< %s %s) (>= %s %s)) (= (select %s %s) (select %s %s))) :pattern ((select %s %s))))", i, i, lo, i, hi, nc, i, old, i, nc, i))
		f.setHeap(st, h, sto(st.H(h), arr, nc))
		return Val{}
	}
	externWrites["sort.Strings"] = strSliceKey

	// sort.SearchStrings(a, x): smallest index i in [0,len] with a[i] >= x, given a sorted.
	externs["sort.SearchStrings"] = func(f *Frame, b *ssa.BasicBlock, in *ssa.Call, args []Val, st *State, g string) Val {
		e := f.e
		e.note("assumed contract: sort.SearchStrings returns the least index whose element is >= x (for any input it returns some index in [0,len]; leastness only on sorted input)")
		e.needSeq("Str")
		h := e.arrHeap(types.Typ[types.String])
		s, x := args[0].T, args[1].T
		arr, off, ln := app("s_arr", s), app("s_off", s), app("s_len", s)
		c := sel(st.H(h), arr)
		r := e.freshConst(hname(f, in, "search")+"_pos", "Int")
		e.assume(and(app("<=", "0", r), app("<=", r, ln)))
		srt := app("sortedS", c, off, app("+", off, ln))
		i := e.fresh("i!ss")
		e.assume(implies(srt, and(
			implies(app("<", r, ln), app(">=", app("so", sel(c, app("sidx", off, r))), app("so", x))),
			fmt.Sprintf("(forall ((%s Int)) (! (=> (and (<= 0 %s) (< %s %s)) (< (so (select %s (sidx %s %s))) (so %s))) :pattern ((select %s (sidx %s %s)))))", i, i, i, r, c, off, i, x, c, off, i))))
		// consequence (lemma searchHit, proved in /verif/selftest/lemmas): on sorted input, if x occurs it is found
		lo, hi := off, app("+", off, ln)
		e.assume(implies(and(srt, app(">=", sel(app("bagS", c, lo, hi), x), "1")), and(app("<", r, ln), eq(sel(c, app("sidx", off, r)), x))))
		return Val{T: r}
	}
	externWrites["sort.SearchStrings"] = noWrites

	// errors.Is / errors.As / errors.New
	externs["errors.Is"] = func(f *Frame, b *ssa.BasicBlock, in *ssa.Call, args []Val, st *State, g string) Val {
		f.e.note("assumed contract: errors.Is is an uninterpreted relation, reflexive on non-nil errors, false for a nil error")
		f.e.declErrIs()
		return Val{T: app("errors_is", args[0].T, args[1].T)}
	}
	externWrites["errors.Is"] = noWrites
	// errors.As(err, target): unconstrained verdict; on success *target is set to some error of the chain
	externs["errors.As"] = func(f *Frame, b *ssa.BasicBlock, in *ssa.Call, args []Val, st *State, g string) Val {
		e := f.e
		e.note("assumed contract: errors.As returns an unconstrained verdict (false for a nil error; true, with the target receiving err, when the dynamic type of err itself is one of the module's types assignable to the target type) and otherwise stores an unconstrained value through target; no other effect")
		res := e.freshConst(hname(f, in, "as"), "Bool")
		e.assume(implies(eq(app("i_tag", args[0].T), "0"), not(res)))
		if in != nil {
			if mi, ok := in.Call.Args[1].(*ssa.MakeInterface); ok {
				if pt, ok := mi.X.Type().Underlying().(*types.Pointer); ok {
					h := e.ptrHeap(pt.Elem())
					tv := f.val(mi.X)
					nv := e.freshConst(hname(f, in, "as_target"), e.sortOf(pt.Elem()))
					f.typeInv(nv, pt.Elem())
					// the first thing errors.As tries is err itself: when its dynamic type is assignable to the target type
					// the verdict is true and the target receives err (only the module's own error types are enumerated)
					var hits []string
					if it, ok := pt.Elem().Underlying().(*types.Interface); ok {
						for _, p := range e.prog.AllPackages() {
							if !strings.HasPrefix(p.Pkg.Path(), modulePath) {
								continue
							}
							for _, m := range p.Members {
								if tm, ok := m.(*ssa.Type); ok {
									if _, isIface := tm.Type().Underlying().(*types.Interface); isIface {
										continue
									}
									for _, cand := range []types.Type{tm.Type(), types.NewPointer(tm.Type())} {
										if types.Implements(cand, it) {
											hits = append(hits, eq(app("i_tag", args[0].T), itoa(e.tagOf(cand))))
										}
									}
								}
							}
						}
						sort.Strings(hits)
						if len(hits) > 0 {
							e.assume(implies(and(g, or(hits...)), and(res, eq(nv, args[0].T))))
						}
					} else if _, ok := pt.Elem().Underlying().(*types.Pointer); ok {
						e.assume(implies(and(g, eq(app("i_tag", args[0].T), itoa(e.tagOf(pt.Elem())))), and(res, eq(nv, app("i_val", args[0].T)))))
					}
					f.setHeap(st, h, sto(st.H(h), tv.T, ite(res, nv, sel(st.H(h), tv.T))))
					return Val{T: res}
				}
			}
		}
		st.havocAll()
		return Val{T: res}
	}
	externWrites["errors.As"] = noWrites
	externs["errors.New"] = func(f *Frame, b *ssa.BasicBlock, in *ssa.Call, args []Val, st *State, g string) Val {
		e := f.e
		e.note("assumed contract: errors.New returns a fresh non-nil error")
		r := f.allocRef(st, "err")
		tag := e.tagOfName("*errors.errorString")
		return Val{T: app("mk_iface", itoa(tag), r)}
	}
	externWrites["errors.New"] = noWrites
	// fmt.Errorf with %w: result wraps its error operand(s)
	externs["fmt.Errorf"] = func(f *Frame, b *ssa.BasicBlock, in *ssa.Call, args []Val, st *State, g string) Val {
		e := f.e
		e.note("assumed contract: fmt.Errorf returns a fresh non-nil error e with errors.Is(e, x) <=> x == e or errors.Is(op, x) for an operand op of error type (every error operand in the module is formatted with %w)")
		e.declErrIs()
		r := f.allocRef(st, "err")
		tag := e.tagOfName("*fmt.wrapError")
		res := e.freshConst(hname(f, in, "errorf"), "Iface")
		e.assume(eq(res, app("mk_iface", itoa(tag), r)))
		x := e.fresh("x!ew")
		alts := []string{eq(x, res)}
		if in != nil && len(args) > 1 && args[1].KLen > 0 {
			h := e.arrHeap(types.NewInterfaceType(nil, nil))
			isErr := variadicErrorOperands(in)
			for j := 0; j < args[1].KLen-1; j++ {
				if j < len(isErr) && !isErr[j] {
					continue
				}
				op := sel(sel(st.H(h), app("s_arr", args[1].T)), app("sidx", app("s_off", args[1].T), itoa(j)))
				alts = append(alts, and(not(eq(app("i_tag", op), "0")), app("errors_is", op, x)))
			}
		}
		// guarded by the path condition: references allocated on different branches may coincide
		e.assume(implies(g, fmt.Sprintf("(forall ((%s Iface)) (! (= (errors_is %s %s) %s) :pattern ((errors_is %s %s)) :qid errorf_is))", x, res, x, or(alts...), res, x)))
		return Val{T: res}
	}
	externWrites["fmt.Errorf"] = noWrites
	externs["fmt.Sprintf"] = func(f *Frame, b *ssa.BasicBlock, in *ssa.Call, args []Val, st *State, g string) Val {
		e := f.e
		e.note("assumed contract: fmt.Sprintf returns an unconstrained string, no heap effect; Sprintf(\"%v\", s) of a string s is s, of a byte slice a function of its bytes (fmt_v_bytes)")
		res := e.freshConst(hname(f, in, "sprintf"), "Str")
		if in != nil {
			if c, ok := in.Call.Args[0].(*ssa.Const); ok && c.Value != nil && c.Value.ExactString() == `"%v"` && len(args) > 1 && args[1].KLen == 2 {
				h := e.arrHeap(types.NewInterfaceType(nil, nil))
				op := sel(sel(st.H(h), app("s_arr", args[1].T)), app("sidx", app("s_off", args[1].T), "0"))
				strTag := e.tagOf(types.Typ[types.String])
				e.assume(implies(eq(app("i_tag", op), itoa(strTag)), eq(res, e.unbox(types.Typ[types.String], app("i_val", op)))))
				// a byte slice: a function of its bytes (uninterpreted: fmt_v_bytes)
				bytesT := types.NewSlice(types.Universe.Lookup("byte").Type())
				sl := e.unbox(bytesT, app("i_val", op))
				e.assume(implies(eq(app("i_tag", op), itoa(e.tagOf(bytesT))), eq(res, e.fmtBytes(st, sl))))
			}
		}
		return Val{T: res}
	}
	// strings.Join(elems, sep): for two elements a + sep + b; otherwise an uninterpreted string
	externs["strings.Join"] = func(f *Frame, b *ssa.BasicBlock, in *ssa.Call, args []Val, st *State, g string) Val {
		e := f.e
		e.note("assumed contract: strings.Join(s, sep) = s[0]+sep+s[1] for two elements, s[0] for one, \"\" for none; no heap effect")
		res := e.freshConst(hname(f, in, "join"), "Str")
		h := e.arrHeap(types.Typ[types.String])
		s := args[0].T
		el := func(i string) string { return sel(sel(st.H(h), app("s_arr", s)), app("sidx", app("s_off", s), i)) }
		e.declFields()
		// in general: a function of the element sequence and the separator
		e.assume(implies(g, eq(res, app("str_join", sel(st.H(h), app("s_arr", s)), app("s_off", s), app("s_len", s), args[1].T))))
		e.assume(implies(eq(app("s_len", s), "0"), eq(res, "str_empty")))
		e.assume(implies(eq(app("s_len", s), "1"), eq(res, el("0"))))
		e.assume(implies(eq(app("s_len", s), "2"), eq(res, app("str_cat", app("str_cat", el("0"), args[1].T), el("1")))))
		return Val{T: res}
	}
	externs["strings.Fields"] = func(f *Frame, b *ssa.BasicBlock, in *ssa.Call, args []Val, st *State, g string) Val {
		e := f.e
		e.note("assumed contract: strings.Fields(s) returns a fresh slice whose elements are a function of s (fields_arr, fields_len); no heap effect on existing objects")
		e.declFields()
		h := e.arrHeap(types.Typ[types.String])
		r := f.allocRef(st, "fields")
		st.heap[h] = app("store", st.H(h), r, app("fields_arr", args[0].T))
		n := app("fields_len", args[0].T)
		return Val{T: app("mk_slice", r, "0", n, n)}
	}
	// AWS SDK pointer helpers (both SDK generations)
	for _, name := range []string{"github.com/aws/aws-sdk-go-v2/aws.String", "github.com/aws/aws-sdk-go/aws.String"} {
		externs[name] = func(f *Frame, b *ssa.BasicBlock, in *ssa.Call, args []Val, st *State, g string) Val {
			e := f.e
			e.note("assumed contract: aws.String(v) returns a pointer to a fresh copy of v")
			h := e.ptrHeap(types.Typ[types.String])
			r := f.allocRef(st, "awsString")
			st.heap[h] = app("store", st.H(h), r, args[0].T)
			return Val{T: r}
		}
		externWrites[name] = noWrites
		externReads[name] = func(fn *ssa.Function) []hkey { return nil }
	}
	for _, name := range []string{"github.com/aws/aws-sdk-go-v2/aws.ToString", "github.com/aws/aws-sdk-go/aws.StringValue"} {
		externs[name] = func(f *Frame, b *ssa.BasicBlock, in *ssa.Call, args []Val, st *State, g string) Val {
			e := f.e
			e.note("assumed contract: aws.ToString / aws.StringValue(p) is *p, or \"\" for a nil pointer")
			h := e.ptrHeap(types.Typ[types.String])
			return Val{T: ite(eq(args[0].T, "0"), "str_empty", sel(st.H(h), args[0].T))}
		}
		externWrites[name] = noWrites
	}
	for name, bt := range map[string]types.BasicKind{
		"github.com/aws/aws-sdk-go-v2/aws.Bool": types.Bool, "github.com/aws/aws-sdk-go/aws.Bool": types.Bool,
		"github.com/aws/aws-sdk-go-v2/aws.Int32": types.Int32, "github.com/aws/aws-sdk-go-v2/aws.Int64": types.Int64, "github.com/aws/aws-sdk-go/aws.Int64": types.Int64} {
		bt := bt
		externs[name] = func(f *Frame, b *ssa.BasicBlock, in *ssa.Call, args []Val, st *State, g string) Val {
			e := f.e
			e.note("assumed contract: aws.Bool / aws.Int32 / aws.Int64(v) return a pointer to a fresh copy of v")
			h := e.ptrHeap(types.Typ[bt])
			r := f.allocRef(st, "awsPtr")
			st.heap[h] = app("store", st.H(h), r, args[0].T)
			return Val{T: r}
		}
		externWrites[name] = noWrites
		externReads[name] = func(fn *ssa.Function) []hkey { return nil }
	}
	for name, bt := range map[string]types.BasicKind{
		"github.com/aws/aws-sdk-go-v2/aws.ToBool": types.Bool, "github.com/aws/aws-sdk-go/aws.BoolValue": types.Bool,
		"github.com/aws/aws-sdk-go-v2/aws.ToInt32": types.Int32, "github.com/aws/aws-sdk-go-v2/aws.ToInt64": types.Int64, "github.com/aws/aws-sdk-go/aws.Int64Value": types.Int64} {
		bt := bt
		externs[name] = func(f *Frame, b *ssa.BasicBlock, in *ssa.Call, args []Val, st *State, g string) Val {
			e := f.e
			e.note("assumed contract: aws.ToBool / ToInt32 / ToInt64 / BoolValue / Int64Value(p) is *p, or the zero value for a nil pointer")
			h := e.ptrHeap(types.Typ[bt])
			return Val{T: ite(eq(args[0].T, "0"), e.zero(types.Typ[bt]), sel(st.H(h), args[0].T))}
		}
		externWrites[name] = noWrites
	}
	externs["github.com/aws/aws-sdk-go/aws/awserr.New"] = func(f *Frame, b *ssa.BasicBlock, in *ssa.Call, args []Val, st *State, g string) Val {
		e := f.e
		e.note("assumed contract: awserr.New returns a non-nil error value; no heap effect on existing objects")
		r := e.freshConst(hname(f, in, "awserr"), "Iface")
		e.assume(app("iface_ok", r))
		e.assume(not(eq(app("i_tag", r), "0")))
		return Val{T: r}
	}
	externWrites["github.com/aws/aws-sdk-go/aws/awserr.New"] = noWrites
	externReads["github.com/aws/aws-sdk-go/aws/awserr.New"] = func(fn *ssa.Function) []hkey { return nil }
	// text predicates used by the request validators: uninterpreted functions of their arguments
	externs["strings.Contains"] = func(f *Frame, b *ssa.BasicBlock, in *ssa.Call, args []Val, st *State, g string) Val {
		f.e.note("assumed contract: strings.Contains / strings.TrimSpace / (*regexp.Regexp).MatchString are functions of their arguments (uninterpreted: str_contains, str_trim, re_match); no heap effect")
		f.e.declText()
		return Val{T: app("str_contains", args[0].T, args[1].T)}
	}
	externs["strings.TrimSpace"] = func(f *Frame, b *ssa.BasicBlock, in *ssa.Call, args []Val, st *State, g string) Val {
		f.e.declText()
		return Val{T: app("str_trim", args[0].T)}
	}
	externs["(*regexp.Regexp).MatchString"] = func(f *Frame, b *ssa.BasicBlock, in *ssa.Call, args []Val, st *State, g string) Val {
		f.e.declText()
		return Val{T: app("re_match", args[0].T, args[1].T)}
	}
	for _, n := range []string{"strings.Contains", "strings.TrimSpace", "(*regexp.Regexp).MatchString"} {
		externWrites[n] = noWrites
		externReads[n] = func(fn *ssa.Function) []hkey { return nil }
	}
	// bytes.Compare: an uninterpreted function of the two byte sequences (no lexicographic semantics - only that equal
	// inputs give equal verdicts, which is what lets a contract name "the order of the payloads")
	externs["bytes.Compare"] = func(f *Frame, b *ssa.BasicBlock, in *ssa.Call, args []Val, st *State, g string) Val {
		f.e.note("assumed contract: bytes.Compare is a function of the two byte sequences (uninterpreted: bytes_cmp); no heap effect")
		return Val{T: f.e.bytesCmp(st, args[0].T, args[1].T)}
	}
	externWrites["bytes.Compare"] = noWrites
	externReads["bytes.Compare"] = func(fn *ssa.Function) []hkey { return nil }
	// strconv: the two float conversions are uninterpreted functions of their arguments (no decimal semantics - C12)
	externs["strconv.FormatFloat"] = func(f *Frame, b *ssa.BasicBlock, in *ssa.Call, args []Val, st *State, g string) Val {
		e := f.e
		e.note("assumed contract: strconv.FormatFloat is a function of its arguments (uninterpreted: fmt_float); no heap effect")
		e.declStrconv()
		return Val{T: app("fmt_float", args[0].T, args[1].T, args[2].T, args[3].T)}
	}
	externWrites["strconv.FormatFloat"] = noWrites
	externReads["strconv.FormatFloat"] = func(fn *ssa.Function) []hkey { return nil }
	externs["strconv.ParseFloat"] = func(f *Frame, b *ssa.BasicBlock, in *ssa.Call, args []Val, st *State, g string) Val {
		e := f.e
		e.note("assumed contract: strconv.ParseFloat is a function of its arguments (uninterpreted: parse_float, parse_float_err); no heap effect on existing objects")
		e.declStrconv()
		r := app("parse_float_err", args[0].T, args[1].T)
		e.assume(app("iface_ok", r))
		return Val{Tup: []Val{{T: app("parse_float", args[0].T, args[1].T)}, {T: r}}}
	}
	externWrites["strconv.ParseFloat"] = noWrites
	externReads["strconv.ParseFloat"] = func(fn *ssa.Function) []hkey { return nil }
	externs["reflect.DeepEqual"] = func(f *Frame, b *ssa.BasicBlock, in *ssa.Call, args []Val, st *State, g string) Val {
		e := f.e
		e.note("assumed contract: reflect.DeepEqual(x, y) is the library's structural equality of the two values in the current state (uninterpreted: deep_equal); no heap effect")
		e.declRaw("deep_equal", "(declare-fun deep_equal (Iface Iface) Bool)")
		if len(args) != 2 || args[0].T == "" || args[1].T == "" {
			return Val{T: e.freshConst(hname(f, in, "deq"), "Bool")}
		}
		// For the module's flat records (pointer to a struct whose fields are all of basic type) structural equality is
		// spelled out from the declared fields (go/types): same object, or every field equal in the current state.
		// A field added to such a record therefore becomes part of the equality the contracts see.
		var ifaceT *types.Interface
		if ci, ok := in.Call.Args[0].(*ssa.ChangeInterface); ok {
			ifaceT, _ = ci.X.Type().Underlying().(*types.Interface)
		}
		for _, p := range e.prog.AllPackages() {
			if !strings.HasPrefix(p.Pkg.Path(), modulePath) {
				continue
			}
			var names []string
			for n := range p.Members {
				names = append(names, n)
			}
			sort.Strings(names)
			for _, n := range names {
				tm, ok := p.Members[n].(*ssa.Type)
				if !ok {
					continue
				}
				stT, ok := tm.Type().Underlying().(*types.Struct)
				if !ok || stT.NumFields() == 0 {
					continue
				}
				flat := true
				for i := 0; i < stT.NumFields(); i++ {
					if _, ok := stT.Field(i).Type().Underlying().(*types.Basic); !ok {
						flat = false
					}
				}
				ptrT := types.NewPointer(tm.Type())
				if !flat || (ifaceT != nil && !types.Implements(ptrT, ifaceT)) {
					continue
				}
				tag := fmt.Sprint(e.tagOf(ptrT))
				pa, pb := app("i_val", args[0].T), app("i_val", args[1].T)
				var fs []string
				for i := 0; i < stT.NumFields(); i++ {
					h := e.fieldHeap(tm.Type(), i)
					fs = append(fs, eq(sel(st.H(h), pa), sel(st.H(h), pb)))
				}
				e.assume(implies(and(g, eq(app("i_tag", args[0].T), tag), eq(app("i_tag", args[1].T), tag), not(eq(pa, "0")), not(eq(pb, "0"))),
					eq(app("deep_equal", args[0].T, args[1].T), or(eq(pa, pb), and(fs...)))))
			}
		}
		e.note("assumed contract: reflect.DeepEqual of two non-nil pointers to the same flat record type (all fields of basic type) is pointer equality or equality of every declared field (float64 NaN not modelled)")
		return Val{T: app("deep_equal", args[0].T, args[1].T)}
	}
	externWrites["reflect.DeepEqual"] = noWrites
	externWrites["strings.Fields"] = noWrites
	externReads["strings.Fields"] = func(fn *ssa.Function) []hkey { return nil }
	externWrites["strings.Join"] = noWrites
	externReads["strings.Join"] = func(fn *ssa.Function) []hkey { return nil }
	externWrites["fmt.Sprintf"] = noWrites
	externs["fmt.Printf"] = func(f *Frame, b *ssa.BasicBlock, in *ssa.Call, args []Val, st *State, g string) Val {
		f.e.note("assumed contract: fmt.Printf has no effect on module memory")
		return Val{Tup: []Val{{T: f.e.freshConst("printf_n", "Int")}, {T: f.e.freshConst("printf_err", "Iface")}}}
	}
	externWrites["fmt.Printf"] = noWrites

	// sync.Mutex
	externs["(*sync.Mutex).Lock"] = func(f *Frame, b *ssa.BasicBlock, in *ssa.Call, args []Val, st *State, g string) Val {
		f.e.note("assumed contract: (*sync.Mutex).Lock requires the mutex not to be held by this call chain (non-reentrant), ensures held")
		lv := f.mutexLV(args[0])
		held := f.mutexHeld(lv)
		cur := f.loadLV(st, held)
		if f.e.lockDiscipline {
			f.oblige("lock", f.oblName(fmt.Sprintf("%s:lock-not-held#%d", funcDisplay(f.fn), f.callSiteN("lock"))), g, eq(cur, "0"), "mu.Lock() while already held (self-deadlock)", []string{"C11"}, posOf(in))
		}
		f.e.assume(implies(g, eq(cur, "0")))
		f.storeLV(st, held, "1")
		return Val{}
	}
	externs["(*sync.Mutex).Unlock"] = func(f *Frame, b *ssa.BasicBlock, in *ssa.Call, args []Val, st *State, g string) Val {
		f.e.note("assumed contract: (*sync.Mutex).Unlock requires held, ensures not held")
		lv := f.mutexLV(args[0])
		held := f.mutexHeld(lv)
		cur := f.loadLV(st, held)
		if f.e.lockDiscipline {
			f.oblige("lock", f.oblName(fmt.Sprintf("%s:unlock-held#%d", funcDisplay(f.fn), f.callSiteN("unlock"))), g, not(eq(cur, "0")), "mu.Unlock() of a mutex that is not held", []string{"C11"}, posOf(in))
		}
		f.storeLV(st, held, "0")
		return Val{}
	}
	externWrites["(*sync.Mutex).Lock"] = noWrites
	externWrites["(*sync.Mutex).Unlock"] = noWrites

	// sync.RWMutex: the ghost state is 0 (free), 1 (held for writing by this call chain), 2 (held for reading by this call chain)
	rw := func(name, what string, want, next string, msg string) {
		externs[name] = func(f *Frame, b *ssa.BasicBlock, in *ssa.Call, args []Val, st *State, g string) Val {
			f.e.note("assumed contract: sync.RWMutex - Lock/RLock require the mutex not to be held by this call chain and leave it write-/read-held; Unlock/RUnlock require it to be write-/read-held and leave it free")
			held := f.mutexHeld(f.mutexLV(args[0]))
			cur := f.loadLV(st, held)
			if f.e.lockDiscipline {
				f.oblige("lock", f.oblName(fmt.Sprintf("%s:%s#%d", funcDisplay(f.fn), what, f.callSiteN(what))), g, eq(cur, want), msg, []string{"C11"}, posOf(in))
			}
			if want == "0" {
				f.e.assume(implies(g, eq(cur, "0")))
			}
			f.storeLV(st, held, next)
			return Val{}
		}
		externWrites[name] = noWrites
	}
	rw("(*sync.RWMutex).Lock", "lock-not-held", "0", "1", "mu.Lock() while already held (self-deadlock)")
	rw("(*sync.RWMutex).RLock", "rlock-not-held", "0", "2", "mu.RLock() while already held by this call chain")
	rw("(*sync.RWMutex).Unlock", "unlock-held", "1", "0", "mu.Unlock() of a mutex that is not write-held")
	rw("(*sync.RWMutex).RUnlock", "runlock-held", "2", "0", "mu.RUnlock() of a mutex that is not read-held")
}

// declFields declares the functions that model strings.Fields and the general strings.Join.
func (e *Enc) declFields() {
	e.declRaw("fields_arr", "(declare-fun fields_arr (Str) (Array Int Str))\n(declare-fun fields_len (Str) Int)\n(assert (forall ((s Str)) (! (>= (fields_len s) 0) :pattern ((fields_len s)))))\n"+
		"(declare-fun str_join ((Array Int Str) Int Int Str) Str)")
}

// variadicErrorOperands: for a call f(format, a...) whose variadic slice is built in place, which operands
// have a static type implementing error.
func variadicErrorOperands(in *ssa.Call) []bool {
	if len(in.Call.Args) < 2 {
		return nil
	}
	sl, ok := in.Call.Args[len(in.Call.Args)-1].(*ssa.Slice)
	if !ok {
		return nil
	}
	al, ok := sl.X.(*ssa.Alloc)
	if !ok {
		return nil
	}
	arr, ok := al.Type().Underlying().(*types.Pointer).Elem().Underlying().(*types.Array)
	if !ok {
		return nil
	}
	out := make([]bool, arr.Len())
	errT := types.Universe.Lookup("error").Type().Underlying().(*types.Interface)
	for _, ref := range *al.Referrers() {
		ia, ok := ref.(*ssa.IndexAddr)
		if !ok {
			continue
		}
		c, ok := ia.Index.(*ssa.Const)
		if !ok {
			for i := range out {
				out[i] = true
			}
			return out
		}
		for _, r2 := range *ia.Referrers() {
			if st, ok := r2.(*ssa.Store); ok {
				var src types.Type
				switch v := st.Val.(type) {
				case *ssa.MakeInterface:
					src = v.X.Type()
				case *ssa.ChangeInterface:
					src = v.X.Type()
				default:
					src = st.Val.Type()
				}
				if types.Implements(src, errT) || types.Implements(types.NewPointer(src), errT) {
					out[c.Int64()] = true
				}
				if it, isI := src.Underlying().(*types.Interface); isI && it.NumMethods() == 0 {
					out[c.Int64()] = true // interface{}: may hold an error
				}
			}
		}
	}
	return out
}

func (e *Enc) tagOfName(name string) int {
	if n, ok := e.tags[name]; ok {
		return n
	}
	n := len(e.tags) + 1
	e.tags[name] = n
	e.tagTypes = append(e.tagTypes, types.Typ[types.Invalid])
	return n
}

func (f *Frame) mutexLV(p Val) *LVal {
	if p.LV != nil {
		return p.LV
	}
	fail("%s: mutex must be a struct field (&x.mu)", f.fn)
	return nil
}

func (f *Frame) callSiteN(k string) int {
	if f.siteN == nil {
		f.siteN = map[string]int{}
	}
	f.siteN[k]++
	return f.siteN[k]
}

// needSeq declares the sequence vocabulary (sorted, bag, ...) for element sort es from /verif/spec/seq_<sort>.smt2.
func (e *Enc) needSeq(es string) {
	k := sanitize(es)
	if e.declared["seq$"+k] {
		return
	}
	e.declared["seq$"+k] = true
	if es == "Str" {
		e.mapHeaps(types.NewMap(types.Typ[types.String], types.Typ[types.Bool])) // declares card$Str
	}
	data, err := os.ReadFile(filepath.Join(verifDir, "spec", "seq_"+k+".smt2"))
	if err != nil {
		fail("no sequence vocabulary for element sort %s: %v", es, err)
	}
	e.decls = append(e.decls, string(data))
}

func (e *Enc) declStrconv() {
	e.declRaw("fmt_float", "(declare-fun fmt_float (F64 Int Int Int) Str)\n(declare-fun parse_float (Str Int) F64)\n(declare-fun parse_float_err (Str Int) Iface)")
}

// fmtBytes: the text fmt renders a byte slice with under %v, as an uninterpreted function of the slice's bytes.
func (e *Enc) fmtBytes(st *State, sl string) string {
	e.declRaw("fmt_v_bytes", "(declare-fun fmt_v_bytes ((Array Int Int) Int Int) Str)")
	h := e.arrHeap(types.Universe.Lookup("byte").Type())
	return app("fmt_v_bytes", sel(st.H(h), app("s_arr", sl)), app("s_off", sl), app("s_len", sl))
}

// bytesCmp: bytes.Compare of two byte slices in state st, uninterpreted.
func (e *Enc) bytesCmp(st *State, a, b string) string {
	e.declRaw("bytes_cmp", "(declare-fun bytes_cmp ((Array Int Int) Int Int (Array Int Int) Int Int) Int)")
	h := e.arrHeap(types.Universe.Lookup("byte").Type())
	return app("bytes_cmp", sel(st.H(h), app("s_arr", a)), app("s_off", a), app("s_len", a), sel(st.H(h), app("s_arr", b)), app("s_off", b), app("s_len", b))
}

func (e *Enc) declText() {
	e.declRaw("str_contains", "(declare-fun str_contains (Str Str) Bool)\n(declare-fun str_trim (Str) Str)\n(declare-fun re_match (Int Str) Bool)")
}
