package main

import (
	"strconv"
	"regexp"
	"fmt"
	"go/token"
	"go/types"
	"strings"

	"golang.org/x/tools/go/ssa"
)

type FuncReport struct {
	Func    string
	Status  string // verified-against-contract | safety-only | assumed | tool-error
	Err     string
	Notes   []string
	Used    map[string]string
	Obls    []*Obligation
	Kind    string
}

var reExited = regexp.MustCompile(`exited\((\d+)\)`)

func hasTag(tags []string, p string) bool {
	if len(tags) == 0 {
		return true
	}
	for _, t := range tags {
		if t == p {
			return true
		}
	}
	return false
}

// verifyFunc generates all obligations for one function against its contract.
func verifyFunc(prog *ssa.Program, specs *SpecDB, fn *ssa.Function, opts verifyOpts) (rep *FuncReport) {
	rep = &FuncReport{Func: funcFull(fn)}
	e := newEnc(prog, specs)
	e.curFunc = funcFull(fn)
	e.nopanic = opts.nopanic
	e.property = opts.property
	e.lockDiscipline = opts.lockDiscipline
	e.callPolicy = opts.callPolicy
	if opts.lockOnly {
		e.callPolicy = "lock"
	}
	defer func() {
		if r := recover(); r != nil {
			if te, ok := r.(toolError); ok {
				rep.Status = "tool-error"
				rep.Err = te.msg
				rep.Obls = nil
				return
			}
			panic(r)
		}
	}()
	f := e.newFrame(fn, nil)
	f.top = true
	sp := f.specOf(fn)
	if sp != nil && sp.NoPanic {
		e.nopanic = true
	}
	e.declConst("alloc!0", "Int")
	e.assume("(> alloc!0 0)")
	e.entryAlloc = true
	st := &State{heap: map[string]string{}, alloc: "alloc!0", iters: map[*ssa.Range]string{}, e: e, base: "0"}
	var args []Val
	for _, p := range fn.Params {
		c := e.declConst("p$"+sanitize(p.Name()), e.sortOf(p.Type()))
		f.typeInv(c, p.Type())
		switch p.Type().Underlying().(type) {
		case *types.Pointer, *types.Map:
			e.assume(app("<", c, "alloc!0"))
		case *types.Slice:
			e.assume(app("<", app("s_arr", c), "alloc!0"))
		case *types.Struct:
			// a struct passed by value: the references it carries designate allocated objects
			stt := p.Type().Underlying().(*types.Struct)
			e.structSort(p.Type())
			for i := 0; i < stt.NumFields(); i++ {
				acc := app(structName(p.Type())+"$"+fieldName(stt, i), c)
				switch stt.Field(i).Type().Underlying().(type) {
				case *types.Pointer, *types.Map:
					e.assume(app("<", acc, "alloc!0"))
				case *types.Slice:
					e.assume(app("<", app("s_arr", acc), "alloc!0"))
					e.assume(app("slice_ok", acc))
				case *types.Interface:
					e.assume(app("<", app("i_val", acc), "alloc!0"))
					e.assume(app("iface_ok", acc))
				}
			}
		}
		args = append(args, Val{T: c})
	}
	if recv := fn.Signature.Recv(); recv != nil && opts.nopanic && len(args) > 0 {
		if _, isPtr := recv.Type().Underlying().(*types.Pointer); isPtr {
			// no-panic sweep: methods are entered with a non-nil receiver (obligation nilrecv at every static call site)
			e.assume(not(eq(args[0].T, "0")))
		}
	}
	for _, fv := range fn.FreeVars {
		c := e.declConst("fv$"+sanitize(fv.Name()), e.sortOf(fv.Type()))
		f.vals[fv] = Val{T: c}
	}
	var lockObjs []*LVal
	if opts.lockDiscipline {
		// lock discipline: every guarded mutex is free at entry, except the receiver's for functions annotated lockheld
		for _, gs := range specs.guards {
			for _, p := range prog.AllPackages() {
				if p.Pkg.Path() != gs.Pkg {
					continue
				}
				tn, ok := p.Members[gs.Struct].(*ssa.Type)
				if !ok {
					continue
				}
				ptrT := types.NewPointer(tn.Type())
				anyObj := Val{T: "r!lk"}
				held := f.mutexHeld(f.mutexOf(anyObj, ptrT, gs))
				cond := "true"
				if sp != nil && sp.LockHeld {
					for i, prm := range fn.Params {
						if e.guardOf(prm.Type()) == gs {
							cond = not(eq("r!lk", args[i].T))
							e.assume(not(eq(f.loadLV(st, f.mutexHeld(f.mutexOf(args[i], prm.Type(), gs))), "0")))
							break
						}
					}
				}
				e.assume(fmt.Sprintf("(forall ((r!lk Int)) (! (=> %s (= %s 0)) :pattern (%s) :qid mutex_free_at_entry))", cond, f.loadLV(st, held), sel(st.H(held.Heap), "r!lk")))
				for i, prm := range fn.Params {
					if e.guardOf(prm.Type()) == gs {
						lockObjs = append(lockObjs, f.mutexHeld(f.mutexOf(args[i], prm.Type(), gs)))
					}
				}
			}
		}
	}
	f.lockObjs = lockObjs
	entry := st.clone()
	// package-level facts (variables initialised once by package init and never reassigned)
	for _, gs := range specs.globals {
		gctx := &SpecCtx{f: f, vars: map[string]SV{}, cur: entry, old: entry, g: "true"}
		for _, p := range prog.AllPackages() {
			if p.Pkg.Path() == gs.Pkg {
				gctx.pkg = p.Pkg
			}
		}
		gctx.globalClause = true
		e.assume(gctx.eval(gs.Expr).T)
		e.note("assumed package-level fact (variables set by package initialisation, checked never to be assigned elsewhere): " + gs.Src)
	}
	var mods []modEntry
	if sp != nil {
		ctx := f.ctxFor(fn, args, nil, entry, entry, "true")
		f.declareGhosts(sp, ctx)
		for _, rq := range sp.Requires {
			e.assume(ctx.eval(rq.Expr).T)
		}
		mods = f.evalModifies(sp, ctx)
		if mods == nil {
			mods = []modEntry{}
		}
		if !sp.Partial {
			f.mods = mods
		}
		f.oblige("vacuity", funcDisplay(fn)+":requires-satisfiable", "true", "false", "requires clauses are jointly satisfiable", nil, token.NoPos)
		e.obls[len(e.obls)-1].Expect = "notunsat"
	}
	if sp != nil {
		for _, cs := range sp.CallSites {
			cs.Seen = false
		}
		// loop-exit flags mentioned by the contract are tracked from the start
		for _, en := range sp.Ensures {
			for _, m := range reExited.FindAllStringSubmatch(en.Src, -1) {
				k, _ := strconv.Atoi(m[1])
				e.exitedHeap(k)
			}
		}
	}
	f.run(st, "true", args)
	fname := funcDisplay(fn)
	if sp != nil {
		for _, cs := range sp.CallSites {
			if !cs.Seen && (opts.property == "" || hasTag(cs.Clause.Tags, opts.property)) {
				rep.Status = "tool-error"
				rep.Err = "the contract constrains the calls to " + cs.Callee + ", but the body makes no such call: " + cs.Clause.Src
				rep.Obls = nil
				return rep
			}
		}
	}
	if sp != nil {
		rep.Status = "verified-against-contract"
		if sp.Assumed {
			rep.Status = "assumed"
		}
		evaluated := map[*Clause]bool{}
		defer func() {
			for _, en := range sp.Ensures {
				if sp.Assumed && !en.BodyOnly {
					continue
				}
				if (hasTag(en.Tags, opts.property) || opts.property == "") && !evaluated[en] && len(f.rets) > 0 && rep.Status != "tool-error" {
					rep.Status = "tool-error"
					rep.Err = "ensures clause mentions an identifier that is unknown at every return: " + en.Src
					rep.Obls = nil
				}
			}
		}()
		for _, r := range f.rets {
			f.curBlock = r.block
			ctx := f.ctxFor(fn, args, r.vals, r.st, entry, r.guard)
			rblock, rst := r.block, r.st
			ctx.lookup = func(name string) (SV, bool) { return f.resolveLocal(name, rblock, rst, nil) }
			for _, en := range sp.Ensures {
				if !hasTag(en.Tags, opts.property) && opts.property != "" {
					continue
				}
				if sp.Assumed && !en.BodyOnly {
					continue // trusted clause: not checked against the body
				}
				t, ok := evalClauseAt(ctx, en)
				if !ok {
					continue // mentions a local that is not yet declared on this return path
				}
				evaluated[en] = true
				f.oblige("post", fmt.Sprintf("%s:post#%d@ret%d", fname, en.Ord, r.idx+1), r.guard, t, en.Src, en.Tags, r.pos)
			}
			// frame
			for _, h := range sortedKeys(r.st.heap) {
				if sp.Partial || sp.Assumed {
					break // no frame claim (partial), or the frame is trusted, not checked against the body (assumed)
				}
				if strings.HasPrefix(h, "G$") {
					continue // ghost state (call epochs, loop-exit flags), not memory
				}
				ff := f.frameFact(h, mods, entry, r.st, "alloc!0")
				f.oblige("frame", fmt.Sprintf("%s:frame[%s]@ret%d", fname, h, r.idx+1), r.guard, ff, "only locations in the modifies clause change in heap "+h, nil, r.pos)
			}
		}
		for i, p := range f.panics {
			f.curBlock = p.block
			ctx := f.ctxFor(fn, args, nil, p.st, entry, p.guard)
			for _, ab := range sp.Abort {
				if !hasTag(ab.Tags, opts.property) && opts.property != "" {
					continue
				}
				f.oblige("abort", fmt.Sprintf("%s:aborts#%d@panic%d", fname, ab.Ord, i+1), p.guard, ctx.eval(ab.Expr).T, ab.Src, ab.Tags, p.pos)
			}
		}
		// some return reachable
		if len(f.rets) > 0 {
			var gs []string
			for _, r := range f.rets {
				gs = append(gs, r.guard)
			}
			f.oblige("vacuity", fname+":return-reachable", or(gs...), "false", "some return is reachable under the precondition", nil, token.NoPos)
			e.obls[len(e.obls)-1].Expect = "notunsat"
		}
	} else {
		rep.Status = "safety-only"
	}
	if opts.lockDiscipline {
		for _, r := range f.rets {
			f.curBlock = r.block
			for k, lo := range lockObjs {
				f.oblige("lock", fmt.Sprintf("%s:lock-restored#%d@ret%d", fname, k+1, r.idx+1), r.guard, eq(f.loadLV(r.st, lo), f.loadLV(entry, lo)), "the mutex is in the same state at return as at entry", []string{"C11"}, r.pos)
			}
		}
	}
	rep.Obls = e.obls
	for n := range e.notes {
		rep.Notes = append(rep.Notes, n)
	}
	rep.Used = e.funcsUsed
	return rep
}

type verifyOpts struct {
	nopanic        bool
	lockDiscipline bool
	property       string
	safetyOnly     bool
	lockOnly       bool
	callPolicy     string
}

func sortedKeys(m map[string]string) []string {
	var out []string
	for k := range m {
		out = append(out, k)
	}
	sortStrings(out)
	return out
}

func sortStrings(s []string) {
	for i := 1; i < len(s); i++ {
		for j := i; j > 0 && s[j] < s[j-1]; j-- {
			s[j], s[j-1] = s[j-1], s[j]
		}
	}
}

// query builds the SMT-LIB text of one obligation.
func (o *Obligation) caseQuery(c string) string {
	o2 := *o
	o2.Extra = append(append([]string{}, o.Extra...), c)
	return o2.query(false)
}

func (o *Obligation) query(getModel bool) string {
	var b strings.Builder
	e := o.Enc
	if e == nil {
		return "" // decided by the static may-write analysis, no SMT query
	}
	for _, d := range e.decls[:o.NDecls] {
		b.WriteString(d)
		b.WriteString("\n")
	}
	for _, f := range e.facts[:o.NFacts] {
		b.WriteString("(assert ")
		b.WriteString(f)
		b.WriteString(")\n")
	}
	// declarations made after facts were recorded may be referenced by earlier facts only if declared earlier; safe.
	for _, x := range o.Extra {
		b.WriteString("(assert " + x + ")\n")
	}
	b.WriteString("(assert " + o.Guard + ")\n")
	b.WriteString("(assert (not " + o.Goal + "))\n")
	b.WriteString("(check-sat)\n")
	if getModel {
		b.WriteString("(get-model)\n")
	}
	return b.String()
}

// evalClauseAt evaluates a clause; ok=false when it mentions a local that does not exist at this point.
func evalClauseAt(ctx *SpecCtx, c *Clause) (t string, ok bool) {
	defer func() {
		if r := recover(); r != nil {
			if te, isTE := r.(toolError); isTE && strings.Contains(te.msg, "unknown identifier") {
				ok = false
				return
			}
			panic(r)
		}
	}()
	return ctx.eval(c.Expr).T, true
}

// declareGhosts introduces the counting functions of a contract: cnt(0) = 0, cnt(j+1) = cnt(j) + [Body(j)].
// The step axiom is triggered only by pairs of existing terms (no matching loop).
func (f *Frame) declareGhosts(sp *FuncSpec, ctx *SpecCtx) {
	e := f.e
	if f.ghosts == nil {
		f.ghosts = map[string]string{}
	}
	for _, g := range sp.Ghosts {
		name := "ghost$" + sanitize(g.Name) + "$" + f.id
		e.decls = append(e.decls, fmt.Sprintf("(declare-fun %s (Int) Int)", name))
		f.ghosts[g.Name] = name
	}
	for _, g := range sp.Ghosts {
		name := f.ghosts[g.Name]
		j, k := e.fresh("j!g"), e.fresh("k!g")
		c2 := ctx.with(map[string]SV{g.Var: intSV(j)})
		c2.inQ = 1
		body := c2.eval(g.Body).T
		e.assume(eq(app(name, "0"), "0"))
		e.assume(fmt.Sprintf("(forall ((%s Int) (%s Int)) (! (=> (and (<= 0 %s) (= %s (+ %s 1))) (= (%s %s) (+ (%s %s) (ite %s 1 0)))) :pattern ((%s %s) (%s %s)) :qid ghost_step_%s))",
			j, k, j, k, j, name, k, name, j, body, name, j, name, k, sanitize(g.Name)))
		e.assume(fmt.Sprintf("(forall ((%s Int)) (! (>= (%s %s) 0) :pattern ((%s %s)) :qid ghost_nonneg_%s))", j, name, j, name, j, sanitize(g.Name)))
	}
}
