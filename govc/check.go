package main

import (
	"encoding/json"
	"sync/atomic"
	"regexp"
	"flag"
	"fmt"
	"os"
	"path/filepath"
	"sort"
	"strconv"
	"strings"
	"sync"
	"time"
)

type PropConfig struct {
	Funcs          []string `json:"funcs"`           // functions verified against their contracts
	Safety         []string `json:"safety"`          // functions (or package prefixes ending in "...") swept for run-time panics
	BoundedTests   []BoundedTest `json:"bounded_tests"` // bounded stand-ins (Go tests run on the real code), reported as bounded, never as proved
	FrameChecks    []FrameCheck `json:"frame_checks"` // static frame analysis: the function (and everything it can call) writes no pre-existing object in the listed heaps
	Contracts      []string `json:"contracts"`       // verified with callees used through their contracts; callees without contract are opaque (may-write set havoced), nothing is inlined
	Shallow        []string `json:"shallow"`         // verified against contracts without inlining callees (callees without contract: may-write set havoced)
	Lock           []string `json:"lock"`            // functions checked for lock discipline
	SmtLemmas      []SmtLemma `json:"smt_lemmas"`
	Lemmas         []string `json:"lemmas"`          // names of lemmas
	Note           string   `json:"note"`
	Unverified     []string `json:"unverified"`      // named gaps, reported in the evidence
	MetaArguments  []string `json:"meta_arguments"`
}

type SmtLemma struct {
	Name    string `json:"name"`
	File    string `json:"file"`
	Replay  string `json:"replay_template"` // Go test template instantiated with the model's values
	Pkg     string `json:"replay_pkg"`
	Run     string `json:"replay_run"`
	Depends string `json:"depends_on"` // the contract clause that connects the lemma to the code
}

type KnownFinding struct {
	ID          string   `json:"id"`
	Property    string   `json:"property"`
	Status      string   `json:"status"` // open | fixed
	Obligations []string `json:"obligations"`
	What        string   `json:"what"`
	Witness     string   `json:"witness"`
	WitnessPkg  string   `json:"witness_pkg"`
	WitnessRun  string   `json:"witness_run"`
	Line        string   `json:"line"`
}

type Baseline struct {
	Obligations map[string][]string `json:"obligations"` // property -> obligation names that discharge on the unchanged tree
}

func readJSON(path string, v interface{}) error {
	data, err := os.ReadFile(path)
	if err != nil {
		return err
	}
	return json.Unmarshal(data, v)
}

// FrameCheck: a frame condition decided by the may-write analysis instead of an SMT query: no store / map update /
// append reachable from Func (closed-world call graph) targets an object of one of the Forbid heaps unless the object
// was allocated by the very function that writes it.
type FrameCheck struct {
	Func   string   `json:"func"`
	Forbid []string `json:"forbid"`
	Why    string   `json:"why"`
	Tags   []string `json:"tags"`
}

// BoundedTest: a bounded check of code the contracts do not reach; Bound states what is enumerated.
type BoundedTest struct {
	Name  string `json:"name"`
	File  string `json:"file"`
	Pkg   string `json:"pkg"`
	Run   string `json:"run"`
	Bound string `json:"bound"`
}

type oblResult struct {
	o       *Obligation
	res     SolverResult
	proved  bool
	tries   int
	seconds float64
	skipped bool // escalation skipped because enough violations were already found
}

var failedSoFar int32
var knownFindingClause = map[string]bool{} // clause keys named by open known findings of the property being checked
var confirmAll bool // set when recording a baseline: every solver runs to completion

func solveEscalating(o *Obligation, tier string, seed int) oblResult {
	base := 10
	if tier == "thorough" {
		base = 30
	}
	if o.Expect == "notunsat" {
		r := runSolvers(o.query(false), 2, seed, false, nil)
		return oblResult{o: o, res: r, proved: r.Status != "unsat", tries: 1, seconds: r.Seconds}
	}
	start := time.Now()
	var r SolverResult
	tries := 0
	mult := 1
	if tier == "thorough" {
		mult = 3
	}
	_ = base
	tryCases := func(t, sd int) bool {
		if len(o.Cases) < 2 {
			return false
		}
		var last SolverResult
		for _, c := range o.Cases {
			last = runSolvers(o.caseQuery(c), t, sd, false, nil)
			if last.Status != "unsat" {
				return false
			}
		}
		r = last
		r.Solver = last.Solver + "+case-split"
		return true
	}
	steps := []struct {
		t, seed int
		cases   bool
	}{{4 * mult, seed, false}, {8 * mult, seed, true}, {20 * mult, seed + 1, false}, {20 * mult, seed + 1, true}}
	if o.Kind == "safety" {
		steps = steps[:2]
	}
	if knownFindingClause[clauseKey(o.Func+"::"+o.Name)] && tier != "thorough" {
		// an obligation of a clause listed as an open known finding: one attempt (it is either discharged at once or is the finding)
		steps = steps[:1]
	}
	for _, step := range steps {
		if tries > 0 && atomic.LoadInt32(&failedSoFar) >= 3 && tier != "thorough" {
			// enough violations to report: do not spend the escalation budget on the rest
			return oblResult{o: o, res: r, proved: false, tries: tries, seconds: time.Since(start).Seconds(), skipped: true}
		}
		tries++
		if step.cases {
			if tryCases(step.t, step.seed) {
				break
			}
			continue
		}
		r = runSolvers(o.query(false), step.t, step.seed, confirmAll, nil)
		if confirmAll && r.Status == "unsat" && o.Kind == "safety" {
			// baseline recording: a safety site enters the baseline only when two solvers agree
			n := 0
			for _, st := range r.All {
				if st == "unsat" {
					n++
				}
			}
			if n < 2 {
				r.Status = "unknown"
				r.Solver = "single-solver proof (not recorded)"
			}
		}
		if r.Status == "unsat" || r.Status == "sat" {
			break
		}
	}
	if r.Status != "unsat" && !knownFindingClause[clauseKey(o.Func+"::"+o.Name)] {
		atomic.AddInt32(&failedSoFar, 1)
	}
	if tr := os.Getenv("GOVC_TRACE"); tr != "" && strings.Contains(o.Func+"::"+o.Name, tr) {
		os.WriteFile(filepath.Join(os.TempDir(), fmt.Sprintf("trace_%s_%d.smt2", fileSafe(o.Name), time.Now().UnixNano())), []byte(o.query(false)+"\n; RESULT "+r.Status+" by "+r.Solver+" "+fmt.Sprint(r.All)+"\n"), 0o644)
	}
	return oblResult{o: o, res: r, proved: r.Status == "unsat", tries: tries, seconds: time.Since(start).Seconds()}
}

func matchFuncs(w *World, pats []string) []string {
	set := map[string]bool{}
	for _, p := range pats {
		if strings.HasSuffix(p, "...") {
			pre := strings.TrimSuffix(p, "...")
			for n := range w.funcs {
				if strings.HasPrefix(n, pre) {
					set[n] = true
				}
			}
			continue
		}
		if _, ok := w.funcs[p]; ok {
			set[p] = true
		} else {
			set["!missing:"+p] = true
		}
	}
	var out []string
	for n := range set {
		out = append(out, n)
	}
	sort.Strings(out)
	return out
}

func cmdCheck(args []string) int {
	fs := flag.NewFlagSet("check", flag.ExitOnError)
	prop := fs.String("property", "", "property id")
	tier := fs.String("tier", "quick", "quick|thorough")
	writeBaseline := fs.Bool("write-baseline", false, "record the obligations that discharge now as the baseline of this property (never used by registered commands)")
	par := fs.Int("par", 5, "obligations solved concurrently")
	fs.Parse(args)
	if t := os.Getenv("VERIF_TIER"); t != "" && *tier == "" {
		*tier = t
	}
	seed := 0
	if s := os.Getenv("VERIF_SEED"); s != "" {
		seed, _ = strconv.Atoi(s)
	}
	confirmAll = *writeBaseline
	start := time.Now()
	var cfgs map[string]*PropConfig
	if err := readJSON(filepath.Join(verifDir, "spec", "properties.json"), &cfgs); err != nil {
		fmt.Fprintln(os.Stderr, "cannot read spec/properties.json:", err)
		return 2
	}
	cfg := cfgs[*prop]
	if cfg == nil {
		fmt.Fprintln(os.Stderr, "no configuration for property", *prop)
		return 2
	}
	var kf struct {
		Findings []KnownFinding `json:"findings"`
	}
	readJSON(filepath.Join(verifDir, "known_findings.json"), &kf)
	for _, f := range kf.Findings {
		if f.Property == *prop && f.Status == "open" {
			for _, o := range f.Obligations {
				knownFindingClause[o] = true
			}
		}
	}
	var bl Baseline
	readJSON(filepath.Join(verifDir, "obligations.baseline.json"), &bl)
	inBaseline := map[string]bool{}
	for _, n := range bl.Obligations[*prop] {
		inBaseline[clauseKey(n)] = true
	}

	w, err := loadWorld()
	if err != nil {
		fmt.Fprintln(os.Stderr, "TOOL-ERROR: cannot load /repo:", err)
		fmt.Printf("VIOLATION property=%s replay=%s no-failing-input-found\n", *prop, writeReplay(*prop, "load", "the repository does not load/type-check with -tags verif: "+err.Error(), ""))
		return 1
	}

	type job struct {
		fn   string
		opts verifyOpts
		kind string
	}
	var jobs []job
	for _, n := range matchFuncs(w, cfg.Funcs) {
		jobs = append(jobs, job{n, verifyOpts{property: *prop}, "contract"})
	}
	for _, n := range matchFuncs(w, cfg.Shallow) {
		jobs = append(jobs, job{n, verifyOpts{property: *prop, callPolicy: "shallow"}, "contract-shallow"})
	}
	for _, n := range matchFuncs(w, cfg.Contracts) {
		jobs = append(jobs, job{n, verifyOpts{property: *prop, callPolicy: "contracts"}, "contract-modular"})
	}
	for _, n := range matchFuncs(w, cfg.Safety) {
		jobs = append(jobs, job{n, verifyOpts{property: *prop, nopanic: true, safetyOnly: true}, "safety"})
	}
	for _, n := range matchFuncs(w, cfg.Lock) {
		jobs = append(jobs, job{n, verifyOpts{property: *prop, lockDiscipline: true, lockOnly: true}, "lock"})
	}
	var reps []*FuncReport
	var obls []*Obligation
	toolErrors := 0
	var missing []string
	var genFailed [][3]string
	for _, j := range jobs {
		if strings.HasPrefix(j.fn, "!missing:") {
			missing = append(missing, strings.TrimPrefix(j.fn, "!missing:"))
			continue
		}
		rep := verifyFunc(w.prog, w.specs, w.funcs[j.fn], j.opts)
		rep.Kind = j.kind
		reps = append(reps, rep)
		if rep.Status == "tool-error" {
			nb := 0
			for k := range inBaseline {
				if strings.HasPrefix(k, j.fn+"::") {
					nb++
				}
			}
			if nb > 0 && !*writeBaseline {
				// the contract can no longer be attached to (or generated from) this body: every obligation of
				// this function that was discharged on the reference tree is no longer established
				genFailed = append(genFailed, [3]string{j.fn, rep.Err, fmt.Sprint(nb)})
				fmt.Printf("CONTRACT-NOT-APPLICABLE %s: %s\n", j.fn, rep.Err)
				continue
			}
			toolErrors++
			fmt.Printf("TOOL-ERROR %s: %s\n", j.fn, rep.Err)
			continue
		}
		for _, o := range rep.Obls {
			switch j.kind {
			case "safety":
				if o.Kind != "safety" {
					continue
				}
			case "lock":
				if o.Kind != "lock" {
					continue
				}
			}
			obls = append(obls, o)
		}
	}
	// lemmas
	for _, ln := range cfg.Lemmas {
		lo, err := lemmaObligation(w, ln)
		if err != nil {
			fmt.Printf("TOOL-ERROR lemma %s: %v\n", ln, err)
			toolErrors++
			continue
		}
		obls = append(obls, lo...)
	}

	// solve
	results := make([]oblResult, len(obls))
	var wg sync.WaitGroup
	sem := make(chan struct{}, *par)
	for i, o := range obls {
		wg.Add(1)
		sem <- struct{}{}
		go func(i int, o *Obligation) {
			defer wg.Done()
			defer func() { <-sem }()
			name := o.Func + "::" + o.Name
			if *tier != "thorough" && !*writeBaseline && len(inBaseline) > 0 && !inBaseline[clauseKey(name)] && o.Expect == "" && o.Kind == "safety" {
				// a safety site that never discharged on the unchanged tree: undecided whatever the solvers say; not attempted in the quick tier
				results[i] = oblResult{o: o, res: SolverResult{Status: "not-attempted"}, skipped: true}
				return
			}
			results[i] = solveEscalating(o, *tier, seed)
		}(i, o)
	}
	wg.Wait()
	// static frame conditions
	for _, fc := range cfg.FrameChecks {
		fn, ok := w.funcs[fc.Func]
		if !ok {
			o := &Obligation{Name: funcShort(fc.Func) + ":static-frame", Kind: "frame-static", Func: fc.Func, Clause: fc.Why}
			results = append(results, oblResult{o: o, res: SolverResult{Status: "error", Solver: "static may-write analysis", Output: "function " + fc.Func + " does not exist in this tree"}, tries: 1})
			continue
		}
		written := mayWriteOldKeys(w.prog, fn)
		_, all := written["*"]
		for _, h := range fc.Forbid {
			bad := all
			var hit []string
			for id := range written {
				if id == h || (strings.HasSuffix(h, ":*") && strings.HasPrefix(id, strings.TrimSuffix(h, "*"))) {
					bad = true
					hit = append(hit, id)
				}
			}
			o := &Obligation{Name: funcShort(fc.Func) + ":static-frame[" + h + "]", Kind: "frame-static", Func: fc.Func, Tags: fc.Tags,
				Clause: fc.Why + " (no write to a pre-existing object of heap " + h + " is reachable)"}
			st, out := "unsat", ""
			if bad {
				st = "sat"
				sort.Strings(hit)
				out = "the may-write analysis finds a reachable write to a pre-existing object of heap " + h + ": " + strings.Join(hit, " ")
				if all {
					out += " (a call through an open function value or interface makes every heap writable)"
				}
			}
			results = append(results, oblResult{o: o, res: SolverResult{Status: st, Solver: "static may-write analysis", Output: out}, proved: !bad, tries: 1})
		}
	}

	// closed SMT lemmas (string theory etc.); a sat answer carries a model that is replayed on the real code
	type lemmaRes struct {
		l      SmtLemma
		status string
		out    string
		secs   float64
	}
	var lemmaResults []lemmaRes
	for _, l := range cfg.SmtLemmas {
		data, err := os.ReadFile(filepath.Join(verifDir, l.File))
		if err != nil {
			fmt.Printf("TOOL-ERROR lemma %s: %v\n", l.Name, err)
			toolErrors++
			continue
		}
		t := 20
		if *tier == "thorough" {
			t = 120
		}
		r := runSolvers(string(data), t, seed, true, []string{"z3-new", "cvc5"})
		lemmaResults = append(lemmaResults, lemmaRes{l, r.Status, r.Output, r.Seconds})
	}

	// verdicts
	openFinding := map[string]*KnownFinding{}
	for i := range kf.Findings {
		f := &kf.Findings[i]
		if f.Property == *prop && f.Status == "open" {
			for _, o := range f.Obligations {
				openFinding[o] = f
			}
		}
	}
	violations := 0
	undecided := []string{}
	notClaimed := []string{}
	discharged := 0
	counted := 0
	solverTime := map[string]float64{}
	bySolver := map[string]int{}
	var samples []map[string]interface{}
	var provedNames []string
	seenFinding := map[string]bool{}
	vacuity := 0
	for _, r := range results {
		name := r.o.Func + "::" + r.o.Name
		if r.o.Expect == "notunsat" {
			vacuity++
			if !r.proved {
				fmt.Printf("VACUOUS %s: %s (%s)\n", name, r.o.Clause, r.res.Solver)
				path := writeReplay(*prop, name, "vacuity guard failed: "+r.o.Clause+"\nThe precondition (or the path to every return) is unsatisfiable, so every obligation of this function would hold vacuously.", r.o.query(false))
				fmt.Printf("VIOLATION property=%s replay=%s no-failing-input-found\n", *prop, path)
				violations++
			}
			continue
		}
		if f, ok := openFinding[name]; ok {
			notClaimed = append(notClaimed, name)
			if r.proved {
				fmt.Printf("KNOWN-FINDING-GONE: property=%s %s (obligation %s now discharges)\n", *prop, f.ID, name)
			}
			seenFinding[f.ID] = true
			continue
		}
		// a finding may also name a contract clause (all return sites / conjuncts of it): the obligations of that
		// clause that fail are the finding, those that discharge are counted as usual
		if f, ok := openFinding[clauseKey(name)]; ok && !r.proved {
			notClaimed = append(notClaimed, name)
			seenFinding[f.ID] = true
			continue
		}
		counted++
		if r.proved {
			discharged++
			if !(r.o.Kind == "safety" && (r.tries > 1 || r.seconds > 2.0)) {
				// (safety sites that needed escalation or came close to the first time limit are not recorded in the
				// baseline: they would be flaky alarms; they are still attempted and reported in the thorough tier)
				provedNames = append(provedNames, name)
			}
			solverTime[r.res.Solver] += r.res.Seconds
			bySolver[r.res.Solver]++
			if len(samples) < 12 {
				samples = append(samples, map[string]interface{}{"obligation": name, "kind": r.o.Kind, "clause": r.o.Clause, "solver": r.res.Solver, "seconds": round3(r.res.Seconds)})
			}
			continue
		}
		if r.skipped && !*writeBaseline {
			if r.res.Status == "not-attempted" {
				undecided = append(undecided, name+" (never discharged on the unchanged tree; not attempted)")
			} else {
				undecided = append(undecided, name+" (not escalated: other violations already found)")
			}
			counted--
			continue
		}
		if !inBaseline[clauseKey(name)] && !*writeBaseline && len(inBaseline) > 0 {
			// an obligation that never discharged on the unchanged tree: a failed proof is "undecided"
			undecided = append(undecided, name)
			counted--
			fmt.Printf("UNDECIDED %s (%s): not in the baseline of discharged obligations\n", name, r.res.Status)
			continue
		}
		if *writeBaseline {
			fmt.Printf("NOT-PROVED %s (%s) %v\n", name, r.res.Status, r.res.All)
			continue
		}
		violations++
		detail := fmt.Sprintf("obligation: %s\nkind: %s\nfunction: %s\nposition: %s\nclause: %s\nsolver verdicts: %v (after %d escalation steps, %.1fs)\n\nThis obligation is discharged on the unchanged tree and is not discharged on this tree.\nNo model was produced (quantified prelude), hence no concrete failing input: no-failing-input-found.\n",
			name, r.o.Kind, r.o.Func, r.o.Pos, r.o.Clause, r.res.All, r.tries, r.seconds)
		path := writeReplay(*prop, name, detail, r.o.query(true))
		fmt.Printf("VIOLATION property=%s replay=%s no-failing-input-found\n", *prop, path)
	}
	for _, lr := range lemmaResults {
		name := "lemma::" + lr.l.Name
		if f, ok := openFinding[name]; ok {
			notClaimed = append(notClaimed, name)
			seenFinding[f.ID] = true
			if lr.status == "unsat" {
				fmt.Printf("KNOWN-FINDING-GONE: property=%s %s (lemma %s now holds)\n", *prop, f.ID, lr.l.Name)
			}
			continue
		}
		counted++
		if lr.status == "unsat" {
			discharged++
			solverTime["z3-new/cvc5"] += lr.secs
			bySolver["smt-lemma"]++
			samples = append(samples, map[string]interface{}{"obligation": name, "kind": "smt-lemma", "clause": lr.l.File + " (connected to the code by " + lr.l.Depends + ")", "solver": "z3-new/cvc5", "seconds": round3(lr.secs)})
			continue
		}
		violations++
		if lr.status == "sat" && lr.l.Replay != "" {
			path, failed, out := replayModel(*prop, lr.l, lr.out)
			if failed {
				fmt.Printf("VIOLATION property=%s replay=%s\n", *prop, path)
			} else {
				fmt.Printf("TOOL-DISAGREEMENT lemma %s: the model does not fail on the real code: %s\n", lr.l.Name, firstLines(out, 3))
				fmt.Printf("VIOLATION property=%s replay=%s no-failing-input-found\n", *prop, path)
			}
		} else {
			path := writeReplay(*prop, name, "lemma "+lr.l.Name+" ("+lr.l.File+") is not discharged: "+lr.status+"\n"+lr.out, "")
			fmt.Printf("VIOLATION property=%s replay=%s no-failing-input-found\n", *prop, path)
		}
	}
	// known findings: witnesses
	var kfOut []string
	for i := range kf.Findings {
		f := &kf.Findings[i]
		if f.Property != *prop || f.Status != "open" {
			continue
		}
		still := true
		if f.Witness != "" {
			still = runWitness(f)
		}
		if still {
			fmt.Printf("KNOWN-FINDING: property=%s %s %s\n", *prop, f.ID, f.What)
			kfOut = append(kfOut, f.ID+": "+f.What)
		} else {
			fmt.Printf("KNOWN-FINDING-GONE: property=%s %s witness no longer fails\n", *prop, f.ID)
		}
	}
	// bounded stand-ins
	var boundedOut []map[string]interface{}
	for _, bt := range cfg.BoundedTests {
		t0 := time.Now()
		lim := 120
		if *tier == "thorough" {
			lim = 600
		}
		st, out := runBoundedTest(bt.File, bt.Pkg, bt.Run, lim, *tier)
		boundedOut = append(boundedOut, map[string]interface{}{"name": bt.Name, "bound": bt.Bound, "status": st, "seconds": round3(time.Since(t0).Seconds()), "test": bt.File, "run": "go test -overlay <" + bt.Pkg + "/zz_verif_bounded_test.go -> " + bt.File + "> -vet=off -run " + bt.Run + " ./" + bt.Pkg})
		switch st {
		case "fail":
			path := writeReplay(*prop, "bounded:"+bt.Name, "bounded check "+bt.Name+" fails on this tree (bound: "+bt.Bound+")\nreplay: cd "+repoDir+" && go test -overlay <ov.json mapping "+bt.Pkg+"/zz_verif_bounded_test.go to "+filepath.Join(verifDir, bt.File)+"> -vet=off -count=1 -run "+bt.Run+" ./"+bt.Pkg+"\n\n"+out, "")
			fmt.Printf("VIOLATION property=%s replay=%s\n", *prop, path)
			violations++
		case "error":
			path := writeReplay(*prop, "bounded:"+bt.Name, "bounded check "+bt.Name+" cannot be built or run on this tree (the code it exercises changed shape)\n\n"+out, "")
			fmt.Printf("VIOLATION property=%s replay=%s no-failing-input-found\n", *prop, path)
			violations++
		}
	}
	for _, g := range genFailed {
		path := writeReplay(*prop, "contract:"+g[0], "the contract of "+g[0]+" cannot be generated from this tree's body: "+g[1]+
			"\nThe "+g[2]+" contract clauses of this function that were discharged on the reference tree are no longer established (the code the contract describes - a loop, a local, a result - has changed shape); no counterexample is available.", "")
		fmt.Printf("VIOLATION property=%s replay=%s no-failing-input-found\n", *prop, path)
		violations++
	}
	if len(missing) > 0 {
		for _, m := range missing {
			fmt.Printf("MISSING-FUNCTION %s: a function under contract no longer exists\n", m)
			if len(inBaseline) > 0 {
				path := writeReplay(*prop, "missing:"+m, "function "+m+" is under contract for this property but does not exist in this tree", "")
				fmt.Printf("VIOLATION property=%s replay=%s no-failing-input-found\n", *prop, path)
				violations++
			}
		}
	}
	if *writeBaseline {
		if bl.Obligations == nil {
			bl.Obligations = map[string][]string{}
		}
		keys := map[string]bool{}
		for _, n := range provedNames {
			keys[clauseKey(n)] = true
		}
		// a clause is in the baseline only if every obligation generated from it discharged
		for _, r := range results {
			name := r.o.Func + "::" + r.o.Name
			if r.o.Expect == "" && (!r.proved || (r.o.Kind == "safety" && (r.tries > 1 || r.seconds > 2.0))) {
				delete(keys, clauseKey(name))
			}
		}
		provedNames = provedNames[:0]
		for k := range keys {
			provedNames = append(provedNames, k)
		}
		sort.Strings(provedNames)
		bl.Obligations[*prop] = provedNames
		data, _ := json.MarshalIndent(bl, "", " ")
		os.WriteFile(filepath.Join(verifDir, "obligations.baseline.json"), data, 0o644)
		fmt.Printf("baseline for %s: %d obligations\n", *prop, len(provedNames))
	}
	// evidence
	var funcsUnder []map[string]string
	trusted := map[string]bool{}
	for _, rep := range reps {
		funcsUnder = append(funcsUnder, map[string]string{"function": rep.Func, "mode": rep.Kind, "status": rep.Status, "error": rep.Err})
		for _, n := range rep.Notes {
			trusted[n] = true
		}
		for fn, st := range rep.Used {
			if st != "contract" && st != "inlined" {
				trusted["callee "+fn+": "+st] = true
			}
		}
	}
	for _, fixed := range []string{
		"govc itself (go/ssa -> SMT encoder, contract parser) - guarded by selftest corpus under /verif/selftest",
		"go/ssa (x/tools v0.29.0) as the meaning of the Go source",
		"SMT solvers z3 4.8.12, z3 5.1.0, cvc5 1.0.3 (an obligation counts as discharged when z3 4.8.12 or cvc5 answers unsat, or z3 5.1.0 answers unsat in two runs with different seeds; the z3 solvers get the query without set-logic)",
		"machine integers treated as mathematical integers (no overflow)",
		"float64 and strconv uninterpreted (float64 order is an uninterpreted relation, == is term equality: NaN is not modelled)",
		"strings: abstract totally ordered sort with uninterpreted concatenation",
		"allocation never fails; no goroutines inside the library",
		"sequence lemma library /verif/spec/seq_Str.smt2 (bag/sorted lemmas, checked against definitions by selftest)",
	} {
		trusted[fixed] = true
	}
	for _, u := range cfg.Unverified {
		trusted["not verified: "+u] = true
	}
	for _, u := range cfg.MetaArguments {
		trusted["meta-argument (not mechanised): "+u] = true
	}
	var tb []string
	for t := range trusted {
		tb = append(tb, t)
	}
	sort.Strings(tb)
	ev := map[string]interface{}{
		"property_id": *prop,
		"tier":        *tier,
		"seed":        seed,
		"level":       "proof",
		"wall_s":      round3(time.Since(start).Seconds()),
		"violations":  violations,
		"coverage": map[string]interface{}{
			"obligations":              counted,
			"discharged":               discharged,
			"checker_cmd":              fmt.Sprintf("cd /verif && ./check %s %s", *prop, *tier),
			"trusted_base":             tb,
			"samples":                  samples,
			"functions_under_contract": funcsUnder,
			"solver_time_s":            solverTime,
			"discharged_by_solver":     bySolver,
			"vacuity_checks":           vacuity,
			"undecided":                undecided,
			"not_claimed_open_finding": notClaimed,
			"known_findings":           kfOut,
			"bounded_checks":           boundedOut,
			"tool_errors":              toolErrors,
			"contract_files":           w.specs.files,
			"note":                     cfg.Note,
		},
		"assumptions": tb,
	}
	os.MkdirAll(filepath.Join(outDir(), "evidence"), 0o755)
	data, _ := json.MarshalIndent(ev, "", " ")
	os.WriteFile(filepath.Join(outDir(), "evidence", *prop+".json"), data, 0o644)
	fmt.Printf("property %s: %d obligations, %d discharged, %d violations, %d undecided, %d tool errors, %.1fs\n", *prop, counted, discharged, violations, len(undecided), toolErrors, time.Since(start).Seconds())
	if violations > 0 {
		return 1
	}
	if toolErrors > 0 {
		return 2
	}
	if counted == 0 {
		fmt.Println("no obligations generated: refusing to report success")
		return 2
	}
	return 0
}

func round3(f float64) float64 { return float64(int(f*1000)) / 1000 }

func writeReplay(prop, name, detail, query string) string {
	dir := filepath.Join(outDir(), "replays", prop)
	os.MkdirAll(dir, 0o755)
	fn := fileSafe(name)
	if len(fn) > 150 {
		fn = fn[:150]
	}
	path := filepath.Join(dir, fn+".replay.txt")
	var b strings.Builder
	b.WriteString("# failed obligation for property " + prop + "\n")
	b.WriteString(detail)
	if query != "" {
		b.WriteString("\n# SMT-LIB query (unsat expected; decls + path condition + negated goal)\n")
		b.WriteString(query)
	}
	os.WriteFile(path, []byte(b.String()), 0o644)
	return path
}

func runWitness(f *KnownFinding) bool {
	return runWitnessTest(f.Witness, f.WitnessPkg, f.WitnessRun)
}

// outDir: where evidence and replays are written (GOVC_OUT redirects them for self-tests on scratch copies)
func outDir() string {
	if d := os.Getenv("GOVC_OUT"); d != "" {
		return d
	}
	return verifDir
}

func fileSafe(s string) string {
	var b strings.Builder
	for _, r := range s {
		switch {
		case r >= 'a' && r <= 'z', r >= 'A' && r <= 'Z', r >= '0' && r <= '9', r == '_', r == '.', r == '-', r == '#', r == '@':
			b.WriteRune(r)
		case r == ':', r == '/', r == ' ':
			b.WriteByte('_')
		}
	}
	return b.String()
}

var reRet = regexp.MustCompile(`@(ret|panic)[0-9]+`)
var reConj = regexp.MustCompile(`(\.[0-9]+)+$`)
var reSite = regexp.MustCompile(`#[0-9]+\.([0-9]+)`)

// clauseKey identifies the contract clause an obligation comes from, independent of the return path,
// the call-site ordinal and the conjunct it was split into (those change under harmless edits).
func funcShort(full string) string {
	if i := strings.Index(full, "."); i >= 0 {
		return full[i+1:]
	}
	return full
}

var reFrameHeap = regexp.MustCompile(`frame\[[^\]]*\]`)
var reLoopFrame = regexp.MustCompile(`inv\d+#frame\[[^\]]*\]\.(init|keep)`)

func clauseKey(name string) string {
	// frame obligations are one clause per function (per loop): a heap the reference tree never touched has no
	// obligation of its own there, so a change that starts writing it must still fail a clause that was discharged
	name = reLoopFrame.ReplaceAllString(name, "frame") // loop frames belong to the function's frame clause (a new loop has no clause of its own)
	name = reFrameHeap.ReplaceAllString(name, "frame")
	k := reRet.ReplaceAllString(name, "")
	k = reConj.ReplaceAllString(k, "")
	if strings.Contains(k, ":pre@") {
		k = reSite.ReplaceAllString(k, ".$1")
		k = reConj.ReplaceAllString(k, "")
	}
	return k
}

var reModelVal = regexp.MustCompile(`\(([A-Za-z_][A-Za-z0-9_]*) ("(?:[^"]|"")*"|[0-9]+|true|false)\)`)

// replayModel instantiates the lemma's Go test template with the model values and runs it against /repo
// (overlay, nothing written into /repo). Returns the replay file, whether the test failed, and its output.
func replayModel(prop string, l SmtLemma, solverOut string) (string, bool, string) {
	tmpl, err := os.ReadFile(filepath.Join(verifDir, l.Replay))
	if err != nil {
		return writeReplay(prop, "lemma::"+l.Name, "cannot read replay template: "+err.Error()+"\n"+solverOut, ""), false, ""
	}
	text := string(tmpl)
	for _, m := range reModelVal.FindAllStringSubmatch(solverOut, -1) {
		v := m[2]
		if strings.HasPrefix(v, "\"") {
			// SMT-LIB string literal -> Go string literal
			inner := strings.ReplaceAll(v[1:len(v)-1], "\"\"", "\"")
			v = fmt.Sprintf("%q", inner)
		}
		text = strings.ReplaceAll(text, "{{"+m[1]+"}}", v)
	}
	dir := filepath.Join(outDir(), "replays", prop)
	os.MkdirAll(dir, 0o755)
	path := filepath.Join(dir, fileSafe("lemma_"+l.Name)+"_replay_test.go")
	header := fmt.Sprintf("// Counterexample of lemma %s (%s), model given by the solver:\n// %s\n// run: cd /repo && go test -overlay <ov.json mapping %s/zz_verif_witness_test.go to this file> -vet=off -run %s ./%s\n\n",
		l.Name, l.File, strings.ReplaceAll(strings.TrimSpace(solverOut), "\n", " "), l.Pkg, l.Run, l.Pkg)
	os.WriteFile(path, []byte(header+text), 0o644)
	failed := runWitnessTest(path, l.Pkg, l.Run)
	return path, failed, ""
}
