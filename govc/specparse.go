package main

// Parser for the contract language kept in //@ comments.

import (
	"fmt"
	"go/scanner"
	"go/token"
	"os"
	"path/filepath"
	"regexp"
	"strconv"
	"strings"
)

type Node struct {
	Kind  string // ident int str nil bool unop binop field index slice call old quant cond star typeassert
	Op    string
	Name  string
	Args  []*Node
	Vars  []bvar // quant
	Trigs [][]*Node
	TypeS string // for typeassert / quant types
	Src   string
}

type bvar struct {
	Name string
	Type string
}

type tok struct {
	t   token.Token
	lit string
}

type sparser struct {
	toks []tok
	p    int
	src  string
}

func tokenize(src string) []tok {
	fset := token.NewFileSet()
	file := fset.AddFile("", fset.Base(), len(src))
	var s scanner.Scanner
	s.Init(file, []byte(src), func(pos token.Position, msg string) {}, 0)
	var out []tok
	for {
		_, t, lit := s.Scan()
		if t == token.EOF {
			break
		}
		if t == token.SEMICOLON && lit == "\n" {
			continue
		}
		out = append(out, tok{t, lit})
	}
	return out
}

func parseSpecExpr(src string) (n *Node, err error) {
	defer func() {
		if r := recover(); r != nil {
			if te, ok := r.(toolError); ok {
				err = fmt.Errorf("spec parse error in %q: %s", src, te.msg)
				return
			}
			panic(r)
		}
	}()
	p := &sparser{toks: tokenize(src), src: src}
	n = p.expr()
	if p.p != len(p.toks) {
		fail("trailing tokens at %d (%v)", p.p, p.toks[p.p])
	}
	return n, nil
}

func (p *sparser) peek() tok {
	if p.p < len(p.toks) {
		return p.toks[p.p]
	}
	return tok{token.EOF, ""}
}
func (p *sparser) peekAt(k int) tok {
	if p.p+k < len(p.toks) {
		return p.toks[p.p+k]
	}
	return tok{token.EOF, ""}
}
func (p *sparser) next() tok { t := p.peek(); p.p++; return t }
func (p *sparser) expect(t token.Token) tok {
	x := p.next()
	if x.t != t {
		fail("expected %s got %s %q", t, x.t, x.lit)
	}
	return x
}
func (p *sparser) isIdent(s string) bool {
	t := p.peek()
	return t.t == token.IDENT && t.lit == s
}

func (p *sparser) expr() *Node {
	if p.isIdent("forall") || p.isIdent("exists") {
		return p.quant()
	}
	return p.cond()
}

func (p *sparser) quant() *Node {
	q := p.next().lit
	n := &Node{Kind: "quant", Op: q}
	for {
		name := p.expect(token.IDENT).lit
		ty := p.typeText()
		n.Vars = append(n.Vars, bvar{name, ty})
		if p.peek().t == token.COMMA {
			p.next()
			continue
		}
		break
	}
	p.expect(token.COLON)
	p.expect(token.COLON)
	for p.peek().t == token.LBRACE {
		p.next()
		var tr []*Node
		for {
			tr = append(tr, p.cond())
			if p.peek().t == token.COMMA {
				p.next()
				continue
			}
			break
		}
		p.expect(token.RBRACE)
		n.Trigs = append(n.Trigs, tr)
	}
	n.Args = []*Node{p.expr()}
	return n
}

// typeText consumes a Go type and returns its text.
func (p *sparser) typeText() string {
	t := p.next()
	switch t.t {
	case token.MUL:
		return "*" + p.typeText()
	case token.LBRACK:
		if p.peek().t == token.RBRACK {
			p.next()
			return "[]" + p.typeText()
		}
		n := p.expect(token.INT).lit
		p.expect(token.RBRACK)
		return "[" + n + "]" + p.typeText()
	case token.MAP:
		p.expect(token.LBRACK)
		k := p.typeText()
		p.expect(token.RBRACK)
		return "map[" + k + "]" + p.typeText()
	case token.IDENT:
		if p.peek().t == token.PERIOD {
			p.next()
			return t.lit + "." + p.expect(token.IDENT).lit
		}
		return t.lit
	case token.INTERFACE:
		p.expect(token.LBRACE)
		p.expect(token.RBRACE)
		return "interface{}"
	}
	fail("bad type at %q", t.lit)
	return ""
}

func (p *sparser) cond() *Node {
	c := p.implies()
	if p.peek().t == token.ILLEGAL && p.peek().lit == "?" {
		p.next()
		a := p.expr()
		p.expect(token.COLON)
		b := p.expr()
		return &Node{Kind: "cond", Args: []*Node{c, a, b}}
	}
	return c
}

func (p *sparser) implies() *Node {
	l := p.iff()
	// ==> scans as EQL GTR
	if p.peek().t == token.EQL && p.peekAt(1).t == token.GTR {
		p.next()
		p.next()
		var r *Node
		if p.isIdent("forall") || p.isIdent("exists") {
			r = p.quant()
		} else {
			r = p.implies()
		}
		return &Node{Kind: "binop", Op: "==>", Args: []*Node{l, r}}
	}
	return l
}

func (p *sparser) iff() *Node {
	l := p.or()
	// <==> scans as LSS EQL EQL GTR? "<==>" -> LEQ, EQL, GTR  ("<=" "=="? ) handle "<=" "=" ">"...
	if p.peek().t == token.LEQ && p.peekAt(1).t == token.ASSIGN && p.peekAt(2).t == token.GTR {
		p.next()
		p.next()
		p.next()
		r := p.or()
		return &Node{Kind: "binop", Op: "<==>", Args: []*Node{l, r}}
	}
	return l
}

func (p *sparser) or() *Node {
	l := p.and()
	for p.peek().t == token.LOR {
		p.next()
		var r *Node
		if p.isIdent("forall") || p.isIdent("exists") {
			r = p.quant()
		} else {
			r = p.and()
		}
		l = &Node{Kind: "binop", Op: "||", Args: []*Node{l, r}}
	}
	return l
}

func (p *sparser) and() *Node {
	l := p.cmp()
	for p.peek().t == token.LAND {
		p.next()
		var r *Node
		if p.isIdent("forall") || p.isIdent("exists") {
			r = p.quant()
		} else {
			r = p.cmp()
		}
		l = &Node{Kind: "binop", Op: "&&", Args: []*Node{l, r}}
	}
	return l
}

func (p *sparser) cmp() *Node {
	l := p.add()
	t := p.peek()
	switch t.t {
	case token.EQL:
		if p.peekAt(1).t == token.GTR { // ==>
			return l
		}
		p.next()
		return &Node{Kind: "binop", Op: "==", Args: []*Node{l, p.add()}}
	case token.NEQ, token.LSS, token.GTR, token.GEQ:
		p.next()
		return &Node{Kind: "binop", Op: t.t.String(), Args: []*Node{l, p.add()}}
	case token.LEQ:
		if p.peekAt(1).t == token.ASSIGN && p.peekAt(2).t == token.GTR { // <==>
			return l
		}
		p.next()
		return &Node{Kind: "binop", Op: "<=", Args: []*Node{l, p.add()}}
	case token.IDENT:
		if t.lit == "in" {
			p.next()
			return &Node{Kind: "binop", Op: "in", Args: []*Node{l, p.add()}}
		}
	}
	return l
}

func (p *sparser) add() *Node {
	l := p.mul()
	for p.peek().t == token.ADD || p.peek().t == token.SUB {
		op := p.next().t.String()
		l = &Node{Kind: "binop", Op: op, Args: []*Node{l, p.mul()}}
	}
	return l
}

func (p *sparser) mul() *Node {
	l := p.unary()
	for p.peek().t == token.MUL || p.peek().t == token.QUO || p.peek().t == token.REM {
		op := p.next().t.String()
		l = &Node{Kind: "binop", Op: op, Args: []*Node{l, p.unary()}}
	}
	return l
}

func (p *sparser) unary() *Node {
	switch p.peek().t {
	case token.NOT:
		p.next()
		return &Node{Kind: "unop", Op: "!", Args: []*Node{p.unary()}}
	case token.SUB:
		p.next()
		return &Node{Kind: "unop", Op: "-", Args: []*Node{p.unary()}}
	case token.MUL:
		p.next()
		return &Node{Kind: "unop", Op: "*", Args: []*Node{p.unary()}}
	}
	return p.postfix()
}

func (p *sparser) postfix() *Node {
	n := p.primary()
	for {
		switch p.peek().t {
		case token.PERIOD:
			p.next()
			if p.peek().t == token.LPAREN {
				p.next()
				ty := p.typeText()
				p.expect(token.RPAREN)
				n = &Node{Kind: "typeassert", TypeS: ty, Args: []*Node{n}}
				continue
			}
			var name string
			if p.peek().t == token.INT {
				name = p.next().lit
			} else {
				name = p.next().lit
			}
			n = &Node{Kind: "field", Name: name, Args: []*Node{n}}
		case token.LBRACK:
			p.next()
			if p.peek().t == token.MUL && p.peekAt(1).t == token.RBRACK {
				p.next()
				p.next()
				n = &Node{Kind: "star", Args: []*Node{n}}
				continue
			}
			var lo, hi *Node
			if p.peek().t != token.COLON {
				lo = p.expr()
			}
			if p.peek().t == token.COLON {
				p.next()
				if p.peek().t != token.RBRACK {
					hi = p.expr()
				}
				p.expect(token.RBRACK)
				n = &Node{Kind: "slice", Args: []*Node{n, lo, hi}}
				continue
			}
			p.expect(token.RBRACK)
			n = &Node{Kind: "index", Args: []*Node{n, lo}}
		case token.LPAREN:
			if n.Kind == "field" {
				p.next()
				args := []*Node{n.Args[0]}
				for p.peek().t != token.RPAREN {
					args = append(args, p.expr())
					if p.peek().t == token.COMMA {
						p.next()
					}
				}
				p.expect(token.RPAREN)
				n = &Node{Kind: "mcall", Name: n.Name, Args: args}
				continue
			}
			if n.Kind != "ident" {
				return n
			}
			p.next()
			var args []*Node
			for p.peek().t != token.RPAREN {
				args = append(args, p.expr())
				if p.peek().t == token.COMMA {
					p.next()
				}
			}
			p.expect(token.RPAREN)
			if n.Name == "old" {
				n = &Node{Kind: "old", Args: args}
			} else {
				n = &Node{Kind: "call", Name: n.Name, Args: args}
			}
		default:
			return n
		}
	}
}

func (p *sparser) primary() *Node {
	t := p.next()
	switch t.t {
	case token.IDENT:
		switch t.lit {
		case "nil":
			return &Node{Kind: "nil"}
		case "true", "false":
			return &Node{Kind: "bool", Name: t.lit}
		}
		name := t.lit
		// qualified spec function pkg.name( or type name pkg.Type in casts
		return &Node{Kind: "ident", Name: name}
	case token.INT:
		return &Node{Kind: "int", Name: t.lit}
	case token.STRING:
		s, err := strconv.Unquote(t.lit)
		if err != nil {
			fail("bad string %s", t.lit)
		}
		return &Node{Kind: "str", Name: s}
	case token.LPAREN:
		e := p.expr()
		p.expect(token.RPAREN)
		return e
	}
	fail("unexpected token %s %q", t.t, t.lit)
	return nil
}

// ---------------------------------------------------------------------------
// contract files

type Clause struct {
	Kind string // requires ensures invariant modifies decreases assert
	Tags []string
	Expr *Node
	Src  string
	Ord  int
	Mods []*Node
	// BodyOnly: an ensures clause checked against the body (also when the contract is assumed) and never used at call sites
	BodyOnly bool
}

type LoopSpec struct {
	Invs []*Clause
	Decr *Clause
}

type FuncSpec struct {
	Pkg      string // package path
	Name     string // display name within package: (*Table).setItem, copyItem
	Requires []*Clause
	Ensures  []*Clause
	Modifies []*Clause
	Loops    map[int]*LoopSpec
	Pure     bool
	Inline   bool
	Assumed  bool // contract is trusted, body not verified against it
	NoPanic  bool
	Abort    []*Clause // must hold at every panic exit ("aborts")
	MayPanic bool
	Partial  bool // the contract makes no frame claim: no frame obligations, callers havoc the may-write set
	LockHeld bool // called with the guarding mutex held (lock discipline)
	Ghosts   []*GhostCount
	// CallSites: predicates over the arguments of the calls this function makes to a named callee ("callsite NAME: expr";
	// inside expr the callee's parameters are written arg.<param>, everything else is the caller's state at the call)
	CallSites []*CallSiteSpec
	// Opaque: callees (display names) this function's verification treats as opaque calls (may-write set havoced,
	// result unconstrained, callee contract not used - neither its requires nor its ensures)
	Opaque   []string
	Props    []string
	File     string
}

type CallSiteSpec struct {
	Callee string
	Clause *Clause
	Seen   bool
}

// GhostCount: cnt(j) = number of indices i < j for which Body(i) holds (Body evaluated in the entry state)
type GhostCount struct {
	Name string
	Var  string
	Body *Node
	Src  string
}

type PredSpec struct {
	Pkg    string
	Name   string
	Params []bvar
	Body   *Node
	Src    string
}

type LemmaSpec struct {
	Pkg  string
	Name string
	Tags []string
	Expr *Node
	Src  string
	Vars []bvar
}

type GlobalSpec struct {
	Pkg  string
	Expr *Node
	Src  string
}

type GuardSpec struct {
	Pkg    string
	Struct string
	Mutex  string
	Fields []string
}

type SpecDB struct {
	guards       []*GuardSpec
	globals      []*GlobalSpec
	funcs        map[string]*FuncSpec // key: pkgpath + "::" + name
	preds        map[string]*PredSpec // key: name (global, with pkg fallback)
	lemmas       []*LemmaSpec
	preludeDecls []string
	specFuns     map[string]*specFun
	files        []string
	// closedFuncs: witness functions ("pkg.Display") whose signature is closed-world: every function value of that
	// signature is created inside the module (declared with "closedfunc", listed as an assumption)
	closedFuncs []string
}

type specFun struct {
	Name string
	Args []string
	Ret  string
}

var declFunRe = regexp.MustCompile(`^\(declare-fun\s+(\S+)\s+\((.*)\)\s+(\(.*\)|\S+)\s*\)$`)
var guardedRe = regexp.MustCompile(`^guarded\s+([A-Za-z_][A-Za-z0-9_]*)\.([A-Za-z_][A-Za-z0-9_]*)\s*:\s*(.*)$`)
var callsiteHead = regexp.MustCompile(`^callsite(\[[A-Za-z0-9_,. ]+\])?\s+(.+?):\s+(.*)$`)
var clauseHead = regexp.MustCompile(`^(requires|bodyensures|ensures|modifies|invariant|decreases|aborts)(\[[A-Za-z0-9_,. ]+\])?\s+(.*)$`)
var funcHead = regexp.MustCompile(`^func\s+(\S+)\s*$`)
var predHead = regexp.MustCompile(`^pred\s+([A-Za-z_][A-Za-z0-9_]*)\s*\(([^)]*)\)\s*:=\s*(.*)$`)
var ghostHead = regexp.MustCompile(`^ghostcount\s+([A-Za-z_][A-Za-z0-9_]*)\s*\(\s*([A-Za-z_][A-Za-z0-9_]*)\s*\)\s*:=\s*(.*)$`)
var loopHead = regexp.MustCompile(`^loop\s+([0-9]+)\s*:?\s*$`)
var lemmaHead = regexp.MustCompile(`^lemma(\[[A-Za-z0-9_,. ]+\])?\s+([A-Za-z_][A-Za-z0-9_]*)\s*:\s*(.*)$`)

func newSpecDB() *SpecDB {
	return &SpecDB{funcs: map[string]*FuncSpec{}, preds: map[string]*PredSpec{}, specFuns: map[string]*specFun{}}
}

func parseTags(s string) []string {
	s = strings.Trim(s, "[]")
	if s == "" {
		return nil
	}
	var out []string
	for _, t := range strings.Split(s, ",") {
		out = append(out, strings.TrimSpace(t))
	}
	return out
}

func parseParams(s string) []bvar {
	var out []bvar
	s = strings.TrimSpace(s)
	if s == "" {
		return nil
	}
	for _, part := range strings.Split(s, ",") {
		part = strings.TrimSpace(part)
		i := strings.IndexAny(part, " \t")
		if i < 0 {
			fail("bad parameter %q", part)
		}
		out = append(out, bvar{part[:i], strings.TrimSpace(part[i:])})
	}
	return out
}

// loadContractFile parses the //@ lines of one file.
func (db *SpecDB) loadContractFile(path, pkgPath string) error {
	data, err := os.ReadFile(path)
	if err != nil {
		return err
	}
	db.files = append(db.files, path)
	var lines []string
	for _, l := range strings.Split(string(data), "\n") {
		t := strings.TrimSpace(l)
		if strings.HasPrefix(t, "//@") {
			lines = append(lines, strings.TrimRight(t[3:], " \t"))
		}
	}
	// group logical lines: a line whose trimmed text starts with a keyword begins a new item
	type item struct{ text string }
	var items []string
	isHead := func(t string) bool {
		return clauseHead.MatchString(t) || strings.HasPrefix(t, "func ") || strings.HasPrefix(t, "pred ") || loopHead.MatchString(t) ||
			strings.HasPrefix(t, "lemma") || t == "pure" || t == "inline" || t == "assumed" || t == "nopanic" || t == "maypanic" || t == "lockheld" || t == "partial" || strings.HasPrefix(t, "props ") || strings.HasPrefix(t, "smt ") || strings.HasPrefix(t, "global ") || strings.HasPrefix(t, "guarded ") || strings.HasPrefix(t, "ghostcount ") || strings.HasPrefix(t, "opaque ") || strings.HasPrefix(t, "closedfunc ") || callsiteHead.MatchString(t)
	}
	for _, l := range lines {
		t := strings.TrimSpace(l)
		if t == "" || strings.HasPrefix(t, "--") {
			continue
		}
		if i := strings.Index(t, " -- "); i >= 0 {
			t = strings.TrimSpace(t[:i])
		}
		if isHead(t) || len(items) == 0 {
			items = append(items, t)
		} else {
			items[len(items)-1] += " " + t
		}
	}
	var cur *FuncSpec
	curLoop := 0
	ord := map[string]int{}
	for _, it := range items {
		switch {
		case strings.HasPrefix(it, "guarded "):
			// guarded Client.mu: tables, forceFailureErr, ...
			m := guardedRe.FindStringSubmatch(it)
			if m == nil {
				return fmt.Errorf("%s: bad guarded declaration: %s", path, it)
			}
			g := &GuardSpec{Pkg: pkgPath, Struct: m[1], Mutex: m[2]}
			for _, f := range strings.Split(m[3], ",") {
				g.Fields = append(g.Fields, strings.TrimSpace(f))
			}
			db.guards = append(db.guards, g)
			cur = nil
		case strings.HasPrefix(it, "global "):
			n, err := parseSpecExpr(strings.TrimSpace(it[7:]))
			if err != nil {
				return fmt.Errorf("%s: global: %v", path, err)
			}
			db.globals = append(db.globals, &GlobalSpec{Pkg: pkgPath, Expr: n, Src: it[7:]})
			cur = nil
		case strings.HasPrefix(it, "smt "):
			decl := strings.TrimSpace(it[4:])
			db.preludeDecls = append(db.preludeDecls, decl)
			if m := declFunRe.FindStringSubmatch(decl); m != nil {
				db.specFuns[m[1]] = &specFun{Name: m[1], Ret: strings.TrimSpace(m[3])}
			}
		case funcHead.MatchString(it):
			m := funcHead.FindStringSubmatch(it)
			cur = &FuncSpec{Pkg: pkgPath, Name: m[1], Loops: map[int]*LoopSpec{}, File: path}
			key := pkgPath + "::" + m[1]
			if _, dup := db.funcs[key]; dup {
				return fmt.Errorf("%s: duplicate contract for %s", path, m[1])
			}
			db.funcs[key] = cur
			curLoop = 0
			ord = map[string]int{}
		case predHead.MatchString(it):
			m := predHead.FindStringSubmatch(it)
			body, err := parseSpecExpr(m[3])
			if err != nil {
				return fmt.Errorf("%s: pred %s: %v", path, m[1], err)
			}
			db.preds[m[1]] = &PredSpec{Pkg: pkgPath, Name: m[1], Params: parseParams(m[2]), Body: body, Src: m[3]}
			cur = nil
		case lemmaHead.MatchString(it):
			m := lemmaHead.FindStringSubmatch(it)
			body, err := parseSpecExpr(m[3])
			if err != nil {
				return fmt.Errorf("%s: lemma %s: %v", path, m[2], err)
			}
			db.lemmas = append(db.lemmas, &LemmaSpec{Pkg: pkgPath, Name: m[2], Tags: parseTags(m[1]), Expr: body, Src: m[3]})
			cur = nil
		case ghostHead.MatchString(it):
			if cur == nil {
				return fmt.Errorf("%s: ghostcount outside func", path)
			}
			m := ghostHead.FindStringSubmatch(it)
			body, err := parseSpecExpr(m[3])
			if err != nil {
				return fmt.Errorf("%s: ghostcount %s: %v", path, m[1], err)
			}
			cur.Ghosts = append(cur.Ghosts, &GhostCount{Name: m[1], Var: m[2], Body: body, Src: m[3]})
		case loopHead.MatchString(it):
			if cur == nil {
				return fmt.Errorf("%s: loop outside func", path)
			}
			n, _ := strconv.Atoi(loopHead.FindStringSubmatch(it)[1])
			curLoop = n
			if cur.Loops[n] == nil {
				cur.Loops[n] = &LoopSpec{}
			}
		case it == "pure" || it == "inline" || it == "assumed" || it == "nopanic" || it == "maypanic" || it == "lockheld" || it == "partial":
			if cur == nil {
				return fmt.Errorf("%s: %s outside func", path, it)
			}
			switch it {
			case "pure":
				cur.Pure = true
			case "inline":
				cur.Inline = true
			case "assumed":
				cur.Assumed = true
			case "nopanic":
				cur.NoPanic = true
			case "maypanic":
				cur.MayPanic = true
			case "lockheld":
				cur.LockHeld = true
			case "partial":
				cur.Partial = true
			}
		case callsiteHead.MatchString(it):
			if cur == nil {
				return fmt.Errorf("%s: callsite outside func: %s", path, it)
			}
			m := callsiteHead.FindStringSubmatch(it)
			n, err := parseSpecExpr(m[3])
			if err != nil {
				return fmt.Errorf("%s: %s: %v", path, it, err)
			}
			cur.CallSites = append(cur.CallSites, &CallSiteSpec{Callee: strings.TrimSpace(m[2]), Clause: &Clause{Kind: "callsite", Tags: parseTags(m[1]), Src: m[3], Expr: n, Ord: len(cur.CallSites) + 1}})
		case strings.HasPrefix(it, "closedfunc "):
			db.closedFuncs = append(db.closedFuncs, strings.TrimSpace(it[11:]))
		case strings.HasPrefix(it, "opaque "):
			if cur != nil {
				cur.Opaque = append(cur.Opaque, strings.TrimSpace(it[7:]))
			}
		case strings.HasPrefix(it, "props "):
			if cur != nil {
				cur.Props = parseTags(strings.TrimSpace(it[6:]))
			}
		case clauseHead.MatchString(it):
			if cur == nil {
				return fmt.Errorf("%s: clause outside func: %s", path, it)
			}
			m := clauseHead.FindStringSubmatch(it)
			c := &Clause{Kind: m[1], Tags: parseTags(m[2]), Src: m[3]}
			if c.Kind == "bodyensures" {
				// checked against the body only (also of an assumed function), never used at call sites
				c.Kind = "ensures"
				c.BodyOnly = true
				m[1] = "ensures"
			}
			ord[m[1]]++
			c.Ord = ord[m[1]]
			if m[1] == "modifies" {
				for _, part := range splitTop(m[3]) {
					n, err := parseSpecExpr(part)
					if err != nil {
						return fmt.Errorf("%s: %s: %v", path, cur.Name, err)
					}
					c.Mods = append(c.Mods, n)
				}
				cur.Modifies = append(cur.Modifies, c)
				continue
			}
			n, err := parseSpecExpr(m[3])
			if err != nil {
				return fmt.Errorf("%s: %s: %v", path, cur.Name, err)
			}
			c.Expr = n
			switch m[1] {
			case "requires":
				cur.Requires = append(cur.Requires, c)
			case "ensures":
				cur.Ensures = append(cur.Ensures, c)
			case "aborts":
				cur.Abort = append(cur.Abort, c)
			case "invariant":
				if curLoop == 0 {
					return fmt.Errorf("%s: invariant outside loop in %s", path, cur.Name)
				}
				ls := cur.Loops[curLoop]
				c.Ord = len(ls.Invs) + 1
				ls.Invs = append(ls.Invs, c)
			case "decreases":
				if curLoop == 0 {
					return fmt.Errorf("%s: decreases outside loop in %s", path, cur.Name)
				}
				cur.Loops[curLoop].Decr = c
			}
		default:
			return fmt.Errorf("%s: cannot parse contract line: %s", path, it)
		}
	}
	return nil
}

// splitTop splits on commas that are not nested in brackets.
func splitTop(s string) []string {
	var out []string
	depth := 0
	start := 0
	for i, c := range s {
		switch c {
		case '(', '[', '{':
			depth++
		case ')', ']', '}':
			depth--
		case ',':
			if depth == 0 {
				out = append(out, strings.TrimSpace(s[start:i]))
				start = i + 1
			}
		}
	}
	out = append(out, strings.TrimSpace(s[start:]))
	return out
}

func (db *SpecDB) loadDir(repo string, pkgs map[string]string) error {
	for dir, pkgPath := range pkgs {
		matches, _ := filepath.Glob(filepath.Join(repo, dir, "*_verif.go"))
		for _, m := range matches {
			if err := db.loadContractFile(m, pkgPath); err != nil {
				return err
			}
		}
	}
	return nil
}
