package main

// Type-based may-write analysis: which heap arrays a function can change.

import (
	"go/types"
	"sort"
	"strings"

	"golang.org/x/tools/go/ssa"
)

type hkey struct {
	kind  byte // F P A M *
	t     types.Type
	field int
}

func (k hkey) id() string {
	switch k.kind {
	case '*':
		return "*"
	case 'F':
		return "F:" + structName(k.t) + ":" + itoa(k.field)
	}
	return string(k.kind) + ":" + typeKey(k.t)
}

var mayWriteCache = map[*ssa.Function]map[string]hkey{}
var progForAnalysis *ssa.Program

func rootKeys(addr ssa.Value) []hkey {
	switch a := addr.(type) {
	case *ssa.FieldAddr:
		switch a.X.(type) {
		case *ssa.FieldAddr, *ssa.IndexAddr:
			return rootKeys(a.X)
		}
		return []hkey{{kind: 'F', t: a.X.Type().Underlying().(*types.Pointer).Elem(), field: a.Field}}
	case *ssa.IndexAddr:
		switch t := a.X.Type().Underlying().(type) {
		case *types.Slice:
			return []hkey{{kind: 'A', t: t.Elem()}}
		case *types.Pointer:
			switch a.X.(type) {
			case *ssa.FieldAddr, *ssa.IndexAddr:
				return rootKeys(a.X)
			}
			return []hkey{{kind: 'A', t: t.Elem().Underlying().(*types.Array).Elem()}}
		}
	}
	pt, ok := addr.Type().Underlying().(*types.Pointer)
	if !ok {
		return nil
	}
	elem := pt.Elem()
	if st, ok := isStruct(elem); ok {
		var out []hkey
		for i := 0; i < st.NumFields(); i++ {
			out = append(out, hkey{kind: 'F', t: elem, field: i})
		}
		return out
	}
	if arr, ok := elem.Underlying().(*types.Array); ok {
		return []hkey{{kind: 'A', t: arr.Elem()}}
	}
	return []hkey{{kind: 'P', t: elem}}
}

func allocKeys(t types.Type) []hkey {
	// t is the pointer type of the Alloc
	elem := t.Underlying().(*types.Pointer).Elem()
	if st, ok := isStruct(elem); ok {
		var out []hkey
		for i := 0; i < st.NumFields(); i++ {
			out = append(out, hkey{kind: 'F', t: elem, field: i})
		}
		return out
	}
	if arr, ok := elem.Underlying().(*types.Array); ok {
		return []hkey{{kind: 'A', t: arr.Elem()}}
	}
	return []hkey{{kind: 'P', t: elem}}
}

// directWrites: heap keys written by one instruction, not following calls.
func directWrites(in ssa.Instruction) []hkey {
	switch in := in.(type) {
	case *ssa.Store:
		return rootKeys(in.Addr)
	case *ssa.Alloc:
		return allocKeys(in.Type())
	case *ssa.MapUpdate:
		return []hkey{{kind: 'M', t: in.Map.Type().Underlying()}}
	case *ssa.MakeMap:
		return []hkey{{kind: 'M', t: in.Type().Underlying()}}
	case *ssa.MakeSlice:
		return []hkey{{kind: 'A', t: in.Type().Underlying().(*types.Slice).Elem()}}
	case *ssa.Call:
		if fn, ok := in.Call.Value.(*ssa.Function); ok && fn.String() == "errors.As" && len(in.Call.Args) == 2 {
			// errors.As(err, target) stores through target
			if mi, ok := in.Call.Args[1].(*ssa.MakeInterface); ok {
				if pt, ok := mi.X.Type().Underlying().(*types.Pointer); ok {
					return []hkey{{kind: 'P', t: pt.Elem()}}
				}
			}
			return []hkey{{kind: '*'}}
		}
		if bi, ok := in.Call.Value.(*ssa.Builtin); ok {
			switch bi.Name() {
			case "append", "copy":
				if sl, ok := in.Call.Args[0].Type().Underlying().(*types.Slice); ok {
					return []hkey{{kind: 'A', t: sl.Elem()}}
				}
			case "delete":
				return []hkey{{kind: 'M', t: in.Call.Args[0].Type().Underlying()}}
			}
		}
	}
	return nil
}

func calleesOf(prog *ssa.Program, c *ssa.CallCommon) ([]*ssa.Function, bool) {
	if c.IsInvoke() {
		named, _ := c.Value.Type().(*types.Named)
		isModuleIface := named != nil && named.Obj().Pkg() != nil && strings.HasPrefix(named.Obj().Pkg().Path(), modulePath)
		if !isModuleIface {
			return nil, false
		}
		it := c.Value.Type().Underlying().(*types.Interface)
		var out []*ssa.Function
		for _, p := range prog.AllPackages() {
			if !strings.HasPrefix(p.Pkg.Path(), modulePath) {
				continue
			}
			for _, m := range p.Members {
				tn, ok := m.(*ssa.Type)
				if !ok {
					continue
				}
				for _, t := range []types.Type{tn.Type(), types.NewPointer(tn.Type())} {
					if _, isI := t.Underlying().(*types.Interface); isI {
						continue
					}
					if types.Implements(t, it) {
						ms := prog.MethodSets.MethodSet(t)
						if s := ms.Lookup(c.Method.Pkg(), c.Method.Name()); s != nil {
							if fn := prog.MethodValue(s); fn != nil {
								out = append(out, fn)
							}
						}
						break
					}
				}
			}
		}
		return out, false
	}
	switch v := c.Value.(type) {
	case *ssa.Function:
		return []*ssa.Function{v}, false
	case *ssa.MakeClosure:
		return []*ssa.Function{v.Fn.(*ssa.Function)}, false
	case *ssa.Builtin:
		return nil, false
	}
	// a call through a function value: closed world for the signatures declared with "closedfunc" in a contract file
	// (every function value of such a signature is created inside the module), dynamic otherwise
	if globalSpecs != nil {
		sig := c.Signature()
		for _, w := range globalSpecs.closedFuncs {
			if ws := closedSigOf(prog, w); ws != nil && types.Identical(stripRecv(sig), ws) {
				var out []*ssa.Function
				for _, f := range addressTaken(prog) {
					if types.Identical(stripRecv(f.Signature), ws) {
						out = append(out, f)
					}
				}
				return out, false
			}
		}
	}
	return nil, true // dynamic
}

func stripRecv(s *types.Signature) *types.Signature {
	if s.Recv() == nil {
		return s
	}
	return types.NewSignatureType(nil, nil, nil, s.Params(), s.Results(), s.Variadic())
}

var closedSigCache = map[string]*types.Signature{}

// closedSigOf: the signature (without receiver) of the witness function named in a closedfunc directive ("pkg.Display")
func closedSigOf(prog *ssa.Program, witness string) *types.Signature {
	if s, ok := closedSigCache[witness]; ok {
		return s
	}
	var res *types.Signature
	for fn := range allModuleFuncs(prog) {
		if fn.Pkg != nil && fn.Pkg.Pkg.Name()+"."+funcDisplay(fn) == witness {
			res = stripRecv(fn.Signature)
		}
	}
	closedSigCache[witness] = res
	return res
}

var moduleFuncsCache map[*ssa.Function]bool

func allModuleFuncs(prog *ssa.Program) map[*ssa.Function]bool {
	if moduleFuncsCache != nil {
		return moduleFuncsCache
	}
	moduleFuncsCache = map[*ssa.Function]bool{}
	var add func(f *ssa.Function)
	add = func(f *ssa.Function) {
		if f == nil || moduleFuncsCache[f] {
			return
		}
		moduleFuncsCache[f] = true
		for _, a := range f.AnonFuncs {
			add(a)
		}
	}
	for _, p := range prog.AllPackages() {
		if !strings.HasPrefix(p.Pkg.Path(), modulePath) {
			continue
		}
		for _, m := range p.Members {
			switch m := m.(type) {
			case *ssa.Function:
				add(m)
			case *ssa.Type:
				for _, t := range []types.Type{m.Type(), types.NewPointer(m.Type())} {
					ms := prog.MethodSets.MethodSet(t)
					for i := 0; i < ms.Len(); i++ {
						add(prog.MethodValue(ms.At(i)))
					}
				}
			}
		}
	}
	return moduleFuncsCache
}

var addressTakenCache []*ssa.Function

// addressTaken: module functions used as values (closures, method values, plain function values)
func addressTaken(prog *ssa.Program) []*ssa.Function {
	if addressTakenCache != nil {
		return addressTakenCache
	}
	seen := map[*ssa.Function]bool{}
	for f := range allModuleFuncs(prog) {
		for _, b := range f.Blocks {
			for _, in := range b.Instrs {
				if mc, ok := in.(*ssa.MakeClosure); ok {
					if g, ok := mc.Fn.(*ssa.Function); ok {
						seen[g] = true
					}
				}
				var callee ssa.Value
				if c, ok := in.(ssa.CallInstruction); ok && !c.Common().IsInvoke() {
					callee = c.Common().Value
				}
				for _, op := range in.Operands(nil) {
					if op == nil || *op == nil || *op == callee {
						continue
					}
					if g, ok := (*op).(*ssa.Function); ok {
						seen[g] = true
					}
				}
			}
		}
	}
	// package-level initialisers (composite literals of function tables) live in init functions, covered above
	for f := range seen {
		addressTakenCache = append(addressTakenCache, f)
	}
	if addressTakenCache == nil {
		addressTakenCache = []*ssa.Function{}
	}
	return addressTakenCache
}

func mayWriteKeys(prog *ssa.Program, fn *ssa.Function) map[string]hkey {
	if r, ok := mayWriteCache[fn]; ok {
		return r
	}
	// fixpoint over the reachable call graph
	visited := map[*ssa.Function]bool{}
	res := map[string]hkey{}
	var visit func(f *ssa.Function)
	visit = func(f *ssa.Function) {
		if visited[f] {
			return
		}
		visited[f] = true
		if ks, ok := externWrites[f.String()]; ok {
			for _, k := range ks(f) {
				res[k.id()] = k
			}
			return
		}
		if f.Blocks == nil {
			return
		}
		if !inModule(f) && f.Synthetic == "" {
			// foreign function with body: assumed not to write module memory (listed as assumption)
			return
		}
		if globalSpecs != nil && f.Pkg != nil {
			if sp := globalSpecs.funcs[f.Pkg.Pkg.Path()+"::"+funcDisplay(f)]; sp != nil && sp.Assumed {
				// assumed contract: exactly the heaps of its modifies clause (plus allocation, which callers account for)
				for _, k := range staticModKeys(prog, f, sp) {
					res[k.id()] = k
				}
				return
			}
		}
		for _, b := range f.Blocks {
			for _, in := range b.Instrs {
				for _, k := range directWrites(in) {
					res[k.id()] = k
				}
				var cc *ssa.CallCommon
				switch in := in.(type) {
				case *ssa.Call:
					cc = &in.Call
				case *ssa.Defer:
					cc = &in.Call
				case *ssa.Go:
					cc = &in.Call
				case *ssa.MakeClosure:
					visit(in.Fn.(*ssa.Function))
				}
				if cc != nil {
					cs, dyn := calleesOf(prog, cc)
					if dyn {
						res["*"] = hkey{kind: '*'}
					}
					for _, c := range cs {
						visit(c)
					}
				}
			}
		}
	}
	visit(fn)
	mayWriteCache[fn] = res
	return res
}

func (e *Enc) keyName(k hkey) string {
	switch k.kind {
	case 'F':
		return e.fieldHeap(k.t, k.field)
	case 'P':
		return e.ptrHeap(k.t)
	case 'A':
		return e.arrHeap(k.t)
	}
	return ""
}

func (e *Enc) keyNames(keys map[string]hkey) []string {
	set := map[string]bool{}
	for _, k := range keys {
		switch k.kind {
		case '*':
			for _, h := range e.heapOrder {
				set[h] = true
			}
		case 'M':
			md, mv := e.mapHeaps(k.t)
			set[md] = true
			set[mv] = true
		default:
			set[e.keyName(k)] = true
		}
	}
	var out []string
	for h := range set {
		out = append(out, h)
	}
	sort.Strings(out)
	return out
}

func (e *Enc) mayWriteNames(fn *ssa.Function) []string {
	return e.keyNames(mayWriteKeys(e.prog, fn))
}

// instrWrites: heap names one instruction may write, following calls.
func (e *Enc) instrWrites(in ssa.Instruction, f *Frame) []string {
	keys := map[string]hkey{}
	for _, k := range directWrites(in) {
		keys[k.id()] = k
	}
	var cc *ssa.CallCommon
	switch in := in.(type) {
	case *ssa.Call:
		cc = &in.Call
	case *ssa.Defer:
		cc = &in.Call
	}
	if cc != nil {
		cs, dyn := calleesOf(e.prog, cc)
		if dyn {
			// a function value: known closure in this frame?
			if v, ok := f.vals[cc.Value]; ok && v.Fn != nil {
				cs = append(cs, v.Fn)
			} else {
				keys["*"] = hkey{kind: '*'}
			}
		}
		for _, c := range cs {
			for id, k := range mayWriteKeys(e.prog, c) {
				keys[id] = k
			}
		}
	}
	return e.keyNames(keys)
}

// ---------------------------------------------------------------------------
// may-read analysis (for the determinism axiom of functions declared pure)

var mayReadCache = map[*ssa.Function]map[string]hkey{}
var externReads = map[string]func(fn *ssa.Function) []hkey{}

// localDerived: the value is (a slice of / pointer into) memory allocated by the same function,
// so reading it does not make the function depend on the caller's heap.
func localDerived(v ssa.Value, seen map[ssa.Value]bool) bool {
	if seen[v] {
		return true
	}
	seen[v] = true
	switch v := v.(type) {
	case *ssa.Alloc, *ssa.MakeSlice, *ssa.MakeMap:
		return true
	case *ssa.Slice:
		return localDerived(v.X, seen)
	case *ssa.IndexAddr:
		return localDerived(v.X, seen)
	case *ssa.FieldAddr:
		return localDerived(v.X, seen)
	case *ssa.Phi:
		for _, e := range v.Edges {
			if !localDerived(e, seen) {
				return false
			}
		}
		return true
	case *ssa.Const:
		return v.Value == nil
	case *ssa.Call:
		if bi, ok := v.Call.Value.(*ssa.Builtin); ok && bi.Name() == "append" {
			return localDerived(v.Call.Args[0], seen)
		}
	}
	return false
}

func directReads(in ssa.Instruction) []hkey {
	switch in := in.(type) {
	case *ssa.UnOp:
		if in.Op.String() == "*" {
			if localDerived(in.X, map[ssa.Value]bool{}) {
				return nil
			}
			return rootKeys(in.X)
		}
	case *ssa.Lookup:
		if _, ok := in.X.Type().Underlying().(*types.Map); ok {
			return []hkey{{kind: 'M', t: in.X.Type().Underlying()}}
		}
	case *ssa.Range:
		if _, ok := in.X.Type().Underlying().(*types.Map); ok {
			return []hkey{{kind: 'M', t: in.X.Type().Underlying()}}
		}
	case *ssa.Call:
		if bi, ok := in.Call.Value.(*ssa.Builtin); ok {
			switch bi.Name() {
			case "len":
				if _, ok := in.Call.Args[0].Type().Underlying().(*types.Map); ok {
					return []hkey{{kind: 'M', t: in.Call.Args[0].Type().Underlying()}}
				}
			case "append", "copy":
				var out []hkey
				for _, a := range in.Call.Args {
					if sl, ok := a.Type().Underlying().(*types.Slice); ok && !localDerived(a, map[ssa.Value]bool{}) {
						out = append(out, hkey{kind: 'A', t: sl.Elem()})
					}
				}
				return out
			}
		}
	}
	return nil
}

func mayReadKeys(prog *ssa.Program, fn *ssa.Function) map[string]hkey {
	if r, ok := mayReadCache[fn]; ok {
		return r
	}
	visited := map[*ssa.Function]bool{}
	res := map[string]hkey{}
	var visit func(f *ssa.Function)
	visit = func(f *ssa.Function) {
		if visited[f] {
			return
		}
		visited[f] = true
		if ks, ok := externReads[f.String()]; ok {
			for _, k := range ks(f) {
				res[k.id()] = k
			}
			return
		}
		if f.Blocks == nil || (!inModule(f) && f.Synthetic == "") {
			return
		}
		for _, b := range f.Blocks {
			for _, in := range b.Instrs {
				for _, k := range directReads(in) {
					res[k.id()] = k
				}
				var cc *ssa.CallCommon
				switch in := in.(type) {
				case *ssa.Call:
					cc = &in.Call
				case *ssa.Defer:
					cc = &in.Call
				case *ssa.MakeClosure:
					visit(in.Fn.(*ssa.Function))
				}
				if cc != nil {
					cs, dyn := calleesOf(prog, cc)
					if dyn {
						res["*"] = hkey{kind: '*'}
					}
					for _, c := range cs {
						visit(c)
					}
				}
			}
		}
	}
	visit(fn)
	mayReadCache[fn] = res
	return res
}

func (e *Enc) mayReadNames(fn *ssa.Function) []string {
	keys := mayReadKeys(e.prog, fn)
	if _, all := keys["*"]; all {
		fail("pure function %s makes dynamic calls", fn)
	}
	return e.keyNames(keys)
}

// mapReadsOnParams: every read of a map of (underlying) type mt in the cone of fn is applied
// directly to a parameter of the function performing the read, and map-typed values of that type
// passed on to callees are parameters too. Then the function depends on the map heap only through
// the contents of the map objects it was given.
func mapReadsOnParams(prog *ssa.Program, fn *ssa.Function, mt types.Type) bool {
	visited := map[*ssa.Function]bool{}
	ok := true
	isParam := func(v ssa.Value) bool {
		_, p := v.(*ssa.Parameter)
		return p
	}
	var visit func(f *ssa.Function)
	visit = func(f *ssa.Function) {
		if visited[f] || !ok {
			return
		}
		visited[f] = true
		if f.Blocks == nil || (!inModule(f) && f.Synthetic == "") {
			return
		}
		for _, b := range f.Blocks {
			for _, in := range b.Instrs {
				switch in := in.(type) {
				case *ssa.Lookup:
					if types.Identical(in.X.Type().Underlying(), mt) && !isParam(in.X) {
						ok = false
					}
				case *ssa.Range:
					if types.Identical(in.X.Type().Underlying(), mt) && !isParam(in.X) {
						ok = false
					}
				case *ssa.Call:
					if bi, isB := in.Call.Value.(*ssa.Builtin); isB && bi.Name() == "len" {
						if types.Identical(in.Call.Args[0].Type().Underlying(), mt) && !isParam(in.Call.Args[0]) {
							ok = false
						}
					}
					for _, a := range in.Call.Args {
						if types.Identical(a.Type().Underlying(), mt) && !isParam(a) {
							if _, isB := in.Call.Value.(*ssa.Builtin); !isB {
								ok = false
							}
						}
					}
					cs, dyn := calleesOf(prog, &in.Call)
					if dyn {
						ok = false
					}
					for _, c := range cs {
						visit(c)
					}
				}
			}
		}
	}
	visit(fn)
	return ok
}

var globalSpecs *SpecDB

// staticModKeys: the heaps named by a contract's modifies clause, from static types only.
func staticModKeys(prog *ssa.Program, fn *ssa.Function, sp *FuncSpec) []hkey {
	var out []hkey
	var typeOf func(n *Node) types.Type
	typeOf = func(n *Node) types.Type {
		switch n.Kind {
		case "ident":
			for _, p := range fn.Params {
				if p.Name() == n.Name {
					return p.Type()
				}
			}
		case "field":
			bt := typeOf(n.Args[0])
			if bt == nil {
				return nil
			}
			if pt, ok := bt.Underlying().(*types.Pointer); ok {
				bt = pt.Elem()
			}
			if st, ok := isStruct(bt); ok {
				for i := 0; i < st.NumFields(); i++ {
					if st.Field(i).Name() == n.Name {
						return st.Field(i).Type()
					}
				}
			}
		case "index":
			bt := typeOf(n.Args[0])
			if bt == nil {
				return nil
			}
			switch t := bt.Underlying().(type) {
			case *types.Map:
				return t.Elem()
			case *types.Slice:
				return t.Elem()
			}
		}
		return nil
	}
	for _, cl := range sp.Modifies {
		for _, n := range cl.Mods {
			switch n.Kind {
			case "star":
				t := typeOf(n.Args[0])
				if t == nil {
					return []hkey{{kind: '*'}}
				}
				switch u := t.Underlying().(type) {
				case *types.Map:
					out = append(out, hkey{kind: 'M', t: u})
				case *types.Slice:
					out = append(out, hkey{kind: 'A', t: u.Elem()})
				}
			case "field":
				bt := typeOf(n.Args[0])
				if bt == nil {
					return []hkey{{kind: '*'}}
				}
				if pt, ok := bt.Underlying().(*types.Pointer); ok {
					bt = pt.Elem()
				}
				if st, ok := isStruct(bt); ok {
					for i := 0; i < st.NumFields(); i++ {
						if st.Field(i).Name() == n.Name {
							out = append(out, hkey{kind: 'F', t: bt, field: i})
						}
					}
				}
			case "ident":
				if n.Name != "nothing" {
					return []hkey{{kind: '*'}}
				}
			default:
				return []hkey{{kind: '*'}}
			}
		}
	}
	return out
}

// ---------------------------------------------------------------------------
// writes to objects that may exist before the write's function (or loop iteration) started

var mayWriteOldCache = map[*ssa.Function]map[string]hkey{}

// directWritesOld: like directWrites, but ignoring initialisation of fresh objects and stores whose
// target is memory allocated by the same function (inLoop restricts "same function" to allocations
// made inside the given blocks, for loop bodies).
func directWritesOld(in ssa.Instruction, inBlocks map[*ssa.BasicBlock]bool) []hkey {
	fresh := func(v ssa.Value) bool {
		return allocatedWithin(v, inBlocks, map[ssa.Value]bool{})
	}
	switch in := in.(type) {
	case *ssa.Alloc, *ssa.MakeMap, *ssa.MakeSlice:
		return nil
	case *ssa.Store:
		if fresh(in.Addr) {
			return nil
		}
	case *ssa.MapUpdate:
		if fresh(in.Map) {
			return nil
		}
	case *ssa.Call:
		if bi, ok := in.Call.Value.(*ssa.Builtin); ok {
			switch bi.Name() {
			case "append", "copy", "delete":
				if fresh(in.Call.Args[0]) {
					return nil
				}
			}
		}
	}
	return directWrites(in)
}

func mayWriteOldKeys(prog *ssa.Program, fn *ssa.Function) map[string]hkey {
	if r, ok := mayWriteOldCache[fn]; ok {
		return r
	}
	visited := map[*ssa.Function]bool{}
	res := map[string]hkey{}
	var visit func(f *ssa.Function)
	visit = func(f *ssa.Function) {
		if visited[f] {
			return
		}
		visited[f] = true
		if ks, ok := externWrites[f.String()]; ok {
			for _, k := range ks(f) {
				res[k.id()] = k
			}
			return
		}
		if f.Blocks == nil || (!inModule(f) && f.Synthetic == "") {
			return
		}
		if globalSpecs != nil && f.Pkg != nil {
			if sp := globalSpecs.funcs[f.Pkg.Pkg.Path()+"::"+funcDisplay(f)]; sp != nil && sp.Assumed && f != fn {
				for _, k := range staticModKeys(prog, f, sp) {
					res[k.id()] = k
				}
				return
			}
		}
		for _, b := range f.Blocks {
			for _, in := range b.Instrs {
				for _, k := range directWritesOld(in, nil) {
					res[k.id()] = k
				}
				var cc *ssa.CallCommon
				switch in := in.(type) {
				case *ssa.Call:
					cc = &in.Call
				case *ssa.Defer:
					cc = &in.Call
				case *ssa.MakeClosure:
					visit(in.Fn.(*ssa.Function))
				}
				if cc != nil {
					cs, dyn := calleesOf(prog, cc)
					if dyn {
						res["*"] = hkey{kind: '*'}
					}
					for _, c := range cs {
						visit(c)
					}
				}
			}
		}
	}
	visit(fn)
	mayWriteOldCache[fn] = res
	return res
}

// instrWritesOld: heap names an instruction of a loop body may write on objects that existed before the loop.
func (e *Enc) instrWritesOld(in ssa.Instruction, f *Frame, body map[*ssa.BasicBlock]bool) []string {
	keys := map[string]hkey{}
	for _, k := range directWritesOld(in, body) {
		keys[k.id()] = k
	}
	var cc *ssa.CallCommon
	switch in := in.(type) {
	case *ssa.Call:
		cc = &in.Call
	case *ssa.Defer:
		cc = &in.Call
	}
	if cc != nil {
		cs, dyn := calleesOf(e.prog, cc)
		if dyn {
			if v, ok := f.vals[cc.Value]; ok && v.Fn != nil {
				cs = append(cs, v.Fn)
			} else {
				keys["*"] = hkey{kind: '*'}
			}
		}
		for _, c := range cs {
			for id, k := range mayWriteOldKeys(e.prog, c) {
				keys[id] = k
			}
		}
	}
	return e.keyNames(keys)
}

// allocatedWithin: every allocation the value may stem from is performed by the same function and,
// when blocks is non-nil, inside those blocks.
func allocatedWithin(v ssa.Value, blocks map[*ssa.BasicBlock]bool, seen map[ssa.Value]bool) bool {
	if seen[v] {
		return true
	}
	seen[v] = true
	switch x := v.(type) {
	case *ssa.Alloc:
		return blocks == nil || blocks[x.Block()]
	case *ssa.MakeSlice:
		return blocks == nil || blocks[x.Block()]
	case *ssa.MakeMap:
		return blocks == nil || blocks[x.Block()]
	case *ssa.Slice:
		return allocatedWithin(x.X, blocks, seen)
	case *ssa.IndexAddr:
		return allocatedWithin(x.X, blocks, seen)
	case *ssa.FieldAddr:
		return allocatedWithin(x.X, blocks, seen)
	case *ssa.Phi:
		for _, e := range x.Edges {
			if !allocatedWithin(e, blocks, seen) {
				return false
			}
		}
		return true
	case *ssa.Const:
		return x.Value == nil
	case *ssa.Call:
		if bi, ok := x.Call.Value.(*ssa.Builtin); ok && bi.Name() == "append" {
			return allocatedWithin(x.Call.Args[0], blocks, seen)
		}
	}
	return false
}
