package main

import (
	gotypes "go/types"
	"flag"
	"fmt"
	"os"
	"path/filepath"
	"sort"
	"strings"
	"sync"
	"time"

	"golang.org/x/tools/go/packages"
	"golang.org/x/tools/go/ssa"
	"golang.org/x/tools/go/ssa/ssautil"
)

var repoDir = "/repo"
var verifDir = "/verif"

type World struct {
	prog  *ssa.Program
	pkgs  []*ssa.Package
	specs *SpecDB
	funcs map[string]*ssa.Function // full display name -> function
}

func loadWorld() (*World, error) {
	if d := os.Getenv("GOVC_REPO"); d != "" {
		repoDir = d
	}
	os.Setenv("GOFLAGS", "-mod=mod")
	os.Setenv("GOPROXY", "off")
	os.Setenv("GOSUMDB", "off")
	os.Setenv("GOTOOLCHAIN", "local")
	cfg := &packages.Config{Mode: packages.LoadAllSyntax, Dir: repoDir, BuildFlags: []string{"-tags=verif"}}
	pkgs, err := packages.Load(cfg, "./...")
	if err != nil {
		return nil, err
	}
	nerr := 0
	packages.Visit(pkgs, nil, func(p *packages.Package) {
		if strings.HasPrefix(p.PkgPath, modulePath) {
			for _, e := range p.Errors {
				fmt.Fprintln(os.Stderr, "load error:", e)
				nerr++
			}
		}
	})
	if nerr > 0 {
		return nil, fmt.Errorf("%d load errors in %s", nerr, repoDir)
	}
	prog, spkgs := ssautil.AllPackages(pkgs, ssa.GlobalDebug)
	prog.Build()
	w := &World{prog: prog, funcs: map[string]*ssa.Function{}, specs: newSpecDB()}
	dirs := map[string]string{}
	for i, p := range spkgs {
		if p == nil || !strings.HasPrefix(p.Pkg.Path(), modulePath) {
			continue
		}
		w.pkgs = append(w.pkgs, p)
		rel := strings.TrimPrefix(strings.TrimPrefix(p.Pkg.Path(), modulePath), "/")
		dirs[rel] = p.Pkg.Path()
		_ = i
		for _, m := range p.Members {
			switch m := m.(type) {
			case *ssa.Function:
				w.addFunc(m)
			case *ssa.Type:
				for _, t := range []interface{ String() string }{m.Type()} {
					_ = t
				}
				ms := prog.MethodSets.MethodSet(m.Type())
				for i := 0; i < ms.Len(); i++ {
					if fn := prog.MethodValue(ms.At(i)); fn != nil && fn.Synthetic == "" {
						w.addFunc(fn)
					}
				}
				ms = prog.MethodSets.MethodSet(ptrTo(m.Type()))
				for i := 0; i < ms.Len(); i++ {
					if fn := prog.MethodValue(ms.At(i)); fn != nil && fn.Synthetic == "" {
						w.addFunc(fn)
					}
				}
			}
		}
	}
	// shared spec files first (prelude), then contract files of the repository
	shared, _ := filepath.Glob(filepath.Join(verifDir, "spec", "*.spec"))
	sort.Strings(shared)
	for _, s := range shared {
		if err := w.specs.loadContractFile(s, ""); err != nil {
			return nil, err
		}
	}
	if err := w.specs.loadDir(repoDir, dirs); err != nil {
		return nil, err
	}
	globalSpecs = w.specs
	return w, nil
}

func (w *World) addFunc(fn *ssa.Function) {
	w.funcs[funcFull(fn)] = fn
	for _, a := range fn.AnonFuncs {
		w.addFunc(a)
	}
}

func main() {
	if len(os.Args) < 2 {
		fmt.Fprintln(os.Stderr, "usage: govc <check|func|list> ...")
		os.Exit(2)
	}
	if d := os.Getenv("GOVC_VERIF"); d != "" {
		verifDir = d
	}
	initWorkDir()
	code := 0
	func() {
		defer cleanupWorkDir()
		switch os.Args[1] {
		case "func":
			code = cmdFunc(os.Args[2:])
		case "check":
			code = cmdCheck(os.Args[2:])
		case "list":
			code = cmdList(os.Args[2:])
		case "reads":
			w, err := loadWorld()
			if err != nil {
				fmt.Fprintln(os.Stderr, err)
				code = 2
				break
			}
			for n, fn := range w.funcs {
				if strings.Contains(n, os.Args[2]) {
					var rs, ws []string
					for id := range mayReadKeys(w.prog, fn) {
						rs = append(rs, id)
					}
					for id := range mayWriteKeys(w.prog, fn) {
						ws = append(ws, id)
					}
					var os2 []string
					for id := range mayWriteOldKeys(w.prog, fn) {
						os2 = append(os2, id)
					}
					sort.Strings(os2)
					sort.Strings(rs)
					sort.Strings(ws)
					fmt.Println(n, "\n  reads:", rs, "\n  writes:", ws, "\n  writes-to-preexisting:", os2)
				}
			}
		default:
			fmt.Fprintln(os.Stderr, "unknown command")
			code = 2
		}
	}()
	os.Exit(code)
}

func cmdList(args []string) int {
	w, err := loadWorld()
	if err != nil {
		fmt.Fprintln(os.Stderr, err)
		return 2
	}
	var names []string
	for n := range w.funcs {
		names = append(names, n)
	}
	sort.Strings(names)
	for _, n := range names {
		mark := " "
		fn := w.funcs[n]
		if fn.Pkg != nil {
			if _, ok := w.specs.funcs[fn.Pkg.Pkg.Path()+"::"+funcDisplay(fn)]; ok {
				mark = "C"
			}
		}
		fmt.Println(mark, n)
	}
	return 0
}

type solved struct {
	o   *Obligation
	res SolverResult
}

func solveAll(obls []*Obligation, timeoutS int, seed int, confirm bool, par int) []solved {
	out := make([]solved, len(obls))
	var wg sync.WaitGroup
	sem := make(chan struct{}, par)
	for i, o := range obls {
		wg.Add(1)
		sem <- struct{}{}
		go func(i int, o *Obligation) {
			defer wg.Done()
			defer func() { <-sem }()
			t := timeoutS
			if o.Expect == "notunsat" {
				t = 2
			}
			r := runSolvers(o.query(false), t, seed, confirm, nil)
			if r.Status != "unsat" && o.Expect == "" && len(o.Cases) > 1 {
				all := true
				var last SolverResult
				for _, c := range o.Cases {
					last = runSolvers(o.caseQuery(c), t, seed, confirm, nil)
					if last.Status != "unsat" {
						all = false
						break
					}
				}
				if all {
					r = last
					r.Solver += "+cases"
				}
			}
			out[i] = solved{o, r}
		}(i, o)
	}
	wg.Wait()
	return out
}

// cmdFunc: debug command - verify the named functions and print every obligation's status.
func cmdFunc(args []string) int {
	fs := flag.NewFlagSet("func", flag.ExitOnError)
	nopanic := fs.Bool("nopanic", false, "emit safety obligations")
	lock := fs.Bool("lock", false, "emit lock discipline obligations")
	timeout := fs.Int("t", 10, "solver timeout (s)")
	dump := fs.String("dump", "", "write the SMT query of obligations whose name contains this string to ./dump_<n>.smt2")
	prop := fs.String("property", "", "property filter for tagged clauses")
	policy := fs.String("policy", "", "call policy: shallow|lock")
	nosolve := fs.Bool("nosolve", false, "only generate obligations")
	fs.Parse(args)
	w, err := loadWorld()
	if err != nil {
		fmt.Fprintln(os.Stderr, err)
		return 2
	}
	rc := 0
	for _, pat := range fs.Args() {
		var names []string
		for n := range w.funcs {
			if n == pat || strings.Contains(n, pat) {
				names = append(names, n)
			}
		}
		sort.Strings(names)
		if len(names) == 0 {
			fmt.Println("no function matches", pat)
			rc = 2
		}
		for _, n := range names {
			start := time.Now()
			rep := verifyFunc(w.prog, w.specs, w.funcs[n], verifyOpts{nopanic: *nopanic, lockDiscipline: *lock, lockOnly: *lock, property: *prop, callPolicy: *policy})
			fmt.Printf("== %s: %s %s (%d obligations, gen %.2fs)\n", n, rep.Status, rep.Err, len(rep.Obls), time.Since(start).Seconds())
			if *nosolve {
				kinds := map[string]int{}
				for _, o := range rep.Obls {
					kinds[o.Kind]++
				}
				fmt.Printf("   kinds: %v\n", kinds)
				continue
			}
			res := solveAll(rep.Obls, *timeout, 0, false, 8)
			for i, s := range res {
				ok := s.res.Status == "unsat"
				if s.o.Expect == "notunsat" {
					ok = s.res.Status != "unsat"
				}
				mark := "ok  "
				if !ok {
					mark = "FAIL"
					rc = 1
				}
				fmt.Printf("  %s %-70s %-8s %-7s %.2fs %v\n", mark, s.o.Name, s.res.Status, s.res.Solver, s.res.Seconds, s.res.All)
				if !ok {
					fmt.Println("       at:", s.o.Pos, "|", s.o.Clause)
				}
				if !ok && len(s.o.Goal) < 600 {
					fmt.Println("       goal:", s.o.Goal)
				}
				if s.res.Status == "error" {
					fmt.Println("      ", strings.SplitN(s.res.Output, "\n", 3)[0:2])
				}
				if *dump != "" && strings.Contains(s.o.Name, *dump) {
					fn := fmt.Sprintf("dump_%d.smt2", i)
					os.WriteFile(fn, []byte(s.o.query(true)), 0o644)
					fmt.Println("      dumped to", fn)
				}
			}
			for _, nt := range rep.Notes {
				fmt.Println("  note:", nt)
			}
		}
	}
	return rc
}

func ptrTo(t interface{ String() string }) *gotypes.Pointer {
	return gotypes.NewPointer(t.(gotypes.Type))
}

