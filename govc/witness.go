package main

import (
	"encoding/json"
	"fmt"
	"go/token"
	"os"
	"os/exec"
	"path/filepath"
	"strings"

	"golang.org/x/tools/go/ssa"
)

// runWitnessTest injects an in-package test file with -overlay and reports whether it FAILS
// (i.e. the recorded defect is still present). Nothing is written to /repo.
func runWitnessTest(witness, pkgDir, run string) bool {
	src := witness
	if !filepath.IsAbs(src) {
		src = filepath.Join(verifDir, src)
	}
	target := filepath.Join(repoDir, pkgDir, "zz_verif_witness_test.go")
	ov := map[string]map[string]string{"Replace": {target: src}}
	data, _ := json.Marshal(ov)
	ovFile := filepath.Join(workDir, fmt.Sprintf("ov_%s.json", sanitize(witness)))
	os.WriteFile(ovFile, data, 0o644)
	defer os.Remove(ovFile)
	cmd := exec.Command("go", "test", "-overlay", ovFile, "-vet=off", "-count=1", "-timeout", "60s", "-run", run, "./"+pkgDir)
	cmd.Dir = repoDir
	cmd.Env = append(os.Environ(), "GOFLAGS=-mod=mod", "GOPROXY=off", "GOSUMDB=off", "GOTOOLCHAIN=local")
	out, err := cmd.CombinedOutput()
	if err == nil {
		return false
	}
	if strings.Contains(string(out), "--- FAIL") || strings.Contains(string(out), "panic:") {
		return true
	}
	// build failure or similar: treat as "cannot tell" -> still present, but say so
	fmt.Printf("WITNESS-ERROR %s: %s\n", witness, firstLines(string(out), 5))
	return true
}

func firstLines(s string, n int) string {
	ls := strings.Split(s, "\n")
	if len(ls) > n {
		ls = ls[:n]
	}
	return strings.Join(ls, " | ")
}

// lemmaObligation turns a closed lemma of the contract files into an obligation.
func lemmaObligation(w *World, name string) ([]*Obligation, error) {
	var ls *LemmaSpec
	for _, l := range w.specs.lemmas {
		if l.Name == name {
			ls = l
		}
	}
	if ls == nil {
		return nil, fmt.Errorf("no lemma named %s", name)
	}
	var out []*Obligation
	var err error
	func() {
		defer func() {
			if r := recover(); r != nil {
				if te, ok := r.(toolError); ok {
					err = fmt.Errorf("%s", te.msg)
					return
				}
				panic(r)
			}
		}()
		e := newEnc(w.prog, w.specs)
		e.curFunc = "lemma"
		e.declConst("alloc!0", "Int")
		st := &State{heap: map[string]string{}, alloc: "alloc!0", iters: map[*ssa.Range]string{}, e: e, base: "0"}
		// a frame needs some function: use any function of the lemma's package
		var anyFn *ssa.Function
		for _, fn := range w.funcs {
			if fn.Pkg != nil && fn.Pkg.Pkg.Path() == ls.Pkg {
				anyFn = fn
				break
			}
		}
		if anyFn == nil {
			for _, fn := range w.funcs {
				anyFn = fn
				break
			}
		}
		f := e.newFrame(anyFn, nil)
		ctx := &SpecCtx{f: f, pkg: pkgOfFn(anyFn), vars: map[string]SV{}, cur: st, old: st, g: "true"}
		goal := ctx.eval(ls.Expr).T
		f.oblige("lemma", "lemma:"+name, "true", goal, ls.Src, ls.Tags, token.NoPos)
		out = e.obls
	}()
	return out, err
}

// runBoundedTest runs a bounded stand-in (an in-package Go test kept under /verif/bounded) against the tree under
// check through an overlay. It returns "pass", "fail" (the test ran and failed: a concrete failing input is in the
// output) or "error" (it could not be built or run), and the output.
func runBoundedTest(file, pkgDir, run string, timeoutS int, tier string) (string, string) {
	src := file
	if !filepath.IsAbs(src) {
		src = filepath.Join(verifDir, src)
	}
	target := filepath.Join(repoDir, pkgDir, "zz_verif_bounded_test.go")
	ov := map[string]map[string]string{"Replace": {target: src}}
	data, _ := json.Marshal(ov)
	ovFile := filepath.Join(workDir, fmt.Sprintf("ovb_%s.json", sanitize(file)))
	os.WriteFile(ovFile, data, 0o644)
	defer os.Remove(ovFile)
	cmd := exec.Command("go", "test", "-overlay", ovFile, "-vet=off", "-count=1", "-timeout", fmt.Sprintf("%ds", timeoutS), "-run", run, "./"+pkgDir)
	cmd.Dir = repoDir
	cmd.Env = append(os.Environ(), "GOFLAGS=-mod=mod", "GOPROXY=off", "GOSUMDB=off", "GOTOOLCHAIN=local", "VERIF_TIER="+tier)
	out, err := cmd.CombinedOutput()
	if err == nil {
		return "pass", string(out)
	}
	if strings.Contains(string(out), "--- FAIL") || strings.Contains(string(out), "panic:") {
		return "fail", string(out)
	}
	return "error", string(out)
}
