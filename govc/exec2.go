package main

import (
	"fmt"
	"go/ast"
	"go/printer"
	"go/token"
	"go/types"
	"sort"
	"strings"

	"golang.org/x/tools/go/ssa"
)

func funcDisplay(fn *ssa.Function) string {
	if fn == nil {
		return "?"
	}
	if recv := fn.Signature.Recv(); recv != nil {
		t := recv.Type()
		if pt, ok := t.(*types.Pointer); ok {
			if n, ok := pt.Elem().(*types.Named); ok {
				return "(*" + n.Obj().Name() + ")." + fn.Name()
			}
		}
		if n, ok := t.(*types.Named); ok {
			return n.Obj().Name() + "." + fn.Name()
		}
	}
	if fn.Parent() != nil {
		return funcDisplay(fn.Parent()) + "$" + fn.Name()
	}
	return fn.Name()
}

func funcFull(fn *ssa.Function) string {
	if fn.Pkg != nil {
		return qualifier(fn.Pkg.Pkg) + "." + funcDisplay(fn)
	}
	if fn.Parent() != nil && fn.Parent().Pkg != nil {
		return qualifier(fn.Parent().Pkg.Pkg) + "." + funcDisplay(fn)
	}
	return fn.String()
}

func srcText(fset *token.FileSet, ins ssa.Instruction) string {
	type hasX interface{ Pos() token.Pos }
	// find the smallest AST node text: fall back to instruction string without register names
	s := ins.String()
	if v, ok := ins.(ssa.Value); ok {
		_ = v
	}
	// strip SSA register names to keep names stable: tN -> _
	var b strings.Builder
	i := 0
	for i < len(s) {
		if s[i] == 't' && i+1 < len(s) && s[i+1] >= '0' && s[i+1] <= '9' && (i == 0 || !isIdentChar(s[i-1])) {
			j := i + 1
			for j < len(s) && s[j] >= '0' && s[j] <= '9' {
				j++
			}
			b.WriteString("_")
			i = j
			continue
		}
		b.WriteByte(s[i])
		i++
	}
	return b.String()
}

func isIdentChar(c byte) bool {
	return c == '_' || (c >= 'a' && c <= 'z') || (c >= 'A' && c <= 'Z') || (c >= '0' && c <= '9')
}

func exprName(d *ssa.DebugRef) string {
	if id, ok := d.Expr.(*ast.Ident); ok {
		return id.Name
	}
	return ""
}

func nodeString(fset *token.FileSet, n ast.Node) string {
	var b strings.Builder
	printer.Fprint(&b, fset, n)
	return b.String()
}

// ---------------------------------------------------------------------------
// spec context construction

func (f *Frame) specOf(fn *ssa.Function) *FuncSpec {
	if fn.Pkg == nil {
		return nil
	}
	return f.e.specs.funcs[fn.Pkg.Pkg.Path()+"::"+funcDisplay(fn)]
}

func pkgOfFn(fn *ssa.Function) *types.Package {
	for fn.Pkg == nil && fn.Parent() != nil {
		fn = fn.Parent()
	}
	if fn.Pkg != nil {
		return fn.Pkg.Pkg
	}
	return nil
}

// ctxFor builds a spec context for function fn with the given actuals.
func (f *Frame) ctxFor(fn *ssa.Function, args []Val, results []Val, cur, old *State, g string) *SpecCtx {
	vars := map[string]SV{}
	for i, p := range fn.Params {
		if i < len(args) {
			vars[p.Name()] = f.e.svOfVal(args[i], p.Type())
		}
	}
	if results != nil {
		rs := fn.Signature.Results()
		for i := 0; i < rs.Len(); i++ {
			sv := f.e.svOfVal(results[i], rs.At(i).Type())
			if n := rs.At(i).Name(); n != "" && n != "_" {
				vars[n] = sv
			}
			vars[fmt.Sprintf("result%d", i)] = sv
			if rs.Len() == 1 {
				vars["result"] = sv
			}
		}
	}
	return &SpecCtx{f: f, pkg: pkgOfFn(fn), vars: vars, cur: cur, old: old, g: g}
}

// resolveLocal finds the SSA value a source-level name denotes at block b.
func (f *Frame) resolveLocal(name string, b *ssa.BasicBlock, st *State, phiOverride map[*ssa.Phi]Val) (SV, bool) {
	// phis of this block by comment
	for _, in := range b.Instrs {
		phi, ok := in.(*ssa.Phi)
		if !ok {
			break
		}
		if phi.Comment == name {
			v, ok := phiOverride[phi]
			if !ok {
				v = f.val(phi)
			}
			return f.e.svOfVal(v, phi.Type()), true
		}
	}
	// compiler-named phis (rangeindex) of enclosing loop headers: the innermost one that dominates b
	if name == "rangeindex" {
		var bestPhi *ssa.Phi
		for _, bb := range f.fn.Blocks {
			if bb == b || !bb.Dominates(b) {
				continue
			}
			for _, in := range bb.Instrs {
				phi, ok := in.(*ssa.Phi)
				if !ok {
					break
				}
				if phi.Comment == name {
					if _, have := f.vals[phi]; have && (bestPhi == nil || bestPhi.Block().Dominates(bb)) {
						bestPhi = phi
					}
				}
			}
		}
		if bestPhi != nil {
			return f.e.svOfVal(f.val(bestPhi), bestPhi.Type()), true
		}
	}
	if strings.HasPrefix(name, "ssa_") { // explicit register reference ssa_t12
		for _, bb := range f.fn.Blocks {
			for _, in := range bb.Instrs {
				if v, ok := in.(ssa.Value); ok && v.Name() == name[4:] {
					if phi, ok := in.(*ssa.Phi); ok {
						if ov, ok := phiOverride[phi]; ok {
							return f.e.svOfVal(ov, phi.Type()), true
						}
					}
					return f.e.svOfVal(f.val(v), v.Type()), true
				}
			}
		}
	}
	refs := f.debug[name]
	var best *dbgRef
	defDominates := func(v ssa.Value) bool {
		switch v := v.(type) {
		case *ssa.Parameter, *ssa.Const, *ssa.Global, *ssa.FreeVar:
			return true
		case ssa.Instruction:
			if _, ok := f.vals[v.(ssa.Value)]; !ok {
				return false
			}
			return v.Block() == b || v.Block().Dominates(b)
		}
		return false
	}
	// 1. latest dominating non-constant reference
	for i := range refs {
		r := &refs[i]
		if _, isC := r.val.(*ssa.Const); isC {
			continue
		}
		if !defDominates(r.val) {
			continue
		}
		if r.block == b || r.block.Dominates(b) {
			if best == nil || best.block.Dominates(r.block) && (best.block != r.block || best.pos < r.pos) {
				best = r
			}
		}
	}
	// 2. otherwise: the unique value the name ever denotes whose definition dominates b
	if best == nil {
		var cands []*dbgRef
		seen := map[ssa.Value]bool{}
		for i := range refs {
			r := &refs[i]
			if _, isC := r.val.(*ssa.Const); isC {
				continue
			}
			if defDominates(r.val) && !seen[r.val] {
				seen[r.val] = true
				cands = append(cands, r)
			}
		}
		if len(cands) == 1 {
			best = cands[0]
		} else if len(cands) > 1 {
			fail("%s: name %q is ambiguous at block %d; use ssa_<register>", f.fn, name, b.Index)
		}
	}
	if best == nil {
		for i := range refs {
			if _, isC := refs[i].val.(*ssa.Const); isC && (refs[i].block == b || refs[i].block.Dominates(b)) {
				best = &refs[i]
			}
		}
	}
	if best != nil {
		v := best.val
		if phi, ok := v.(*ssa.Phi); ok {
			if ov, ok := phiOverride[phi]; ok {
				return f.e.svOfVal(ov, phi.Type()), true
			}
		}
		val := f.val(v)
		if best.addr {
			// the name denotes *v
			pt := v.Type().Underlying().(*types.Pointer)
			return SV{T: f.load(st, val, v.Type()), Sort: f.e.sortOf(pt.Elem()), Ty: pt.Elem()}, true
		}
		return f.e.svOfVal(val, v.Type()), true
	}
	if p, ok := f.params[name]; ok {
		for _, prm := range f.fn.Params {
			if prm.Name() == name {
				return f.e.svOfVal(p, prm.Type()), true
			}
		}
	}
	return SV{}, false
}

// ---------------------------------------------------------------------------
// loops

func (f *Frame) loopSpec(li *loopInfo) *LoopSpec {
	sp := f.specOf(f.fn)
	if sp == nil {
		return nil
	}
	return sp.Loops[li.ordinal]
}

func (f *Frame) loopCtx(b *ssa.BasicBlock, st *State, g string, override map[*ssa.Phi]Val, li *loopInfo) *SpecCtx {
	var args []Val
	for _, p := range f.fn.Params {
		args = append(args, f.vals[p])
	}
	c := f.ctxFor(f.fn, args, nil, st, f.entry, g)
	c.lookup = func(name string) (SV, bool) {
		if name == "visited" {
			// the unique map iterator advanced in this loop
			for r, t := range st.iters {
				if f.iterInLoop(r, li) {
					if mt, ok := r.X.Type().Underlying().(*types.Map); ok {
						return SV{T: t, Sort: "(Array " + f.e.sortOf(mt.Key()) + " Bool)"}, true
					}
				}
			}
			// otherwise: the map iterator of an enclosing loop, if unique
			var found *SV
			n := 0
			for r, t := range st.iters {
				if mt, ok := r.X.Type().Underlying().(*types.Map); ok {
					n++
					sv := SV{T: t, Sort: "(Array " + f.e.sortOf(mt.Key()) + " Bool)"}
					found = &sv
				}
			}
			if n == 1 {
				return *found, true
			}
		}
		return f.resolveLocal(name, b, st, override)
	}
	// pre-loop state is accessible through pre(e): bind as special var
	return c
}

func (f *Frame) iterInLoop(r *ssa.Range, li *loopInfo) bool {
	for _, ref := range *r.Referrers() {
		if nx, ok := ref.(*ssa.Next); ok && li.body[nx.Block()] {
			return true
		}
	}
	return false
}

func (f *Frame) enterLoop(b *ssa.BasicBlock, li *loopInfo, st *State, g string, phiIn func(*ssa.Phi) []Val, inGuards []string) (*State, string) {
	e := f.e
	ls := f.loopSpec(li)
	// entry values of phis
	entry := map[*ssa.Phi]Val{}
	for _, instr := range b.Instrs {
		phi, ok := instr.(*ssa.Phi)
		if !ok {
			break
		}
		vs := phiIn(phi)
		if len(vs) == 1 {
			entry[phi] = vs[0]
		} else {
			c := e.freshConst(f.name(phi)+"_in", e.sortOf(phi.Type()))
			for i, v := range vs {
				e.assume(implies(inGuards[i], eq(c, v.T)))
			}
			entry[phi] = Val{T: c}
		}
	}
	li.pre = st.clone()
	li.preG = g
	fname := funcDisplay(f.fn)
	if ls != nil {
		ctx := f.loopCtx(b, st, g, entry, li)
		for _, inv := range ls.Invs {
			t := ctx.eval(inv.Expr).T
			f.oblige("inv.init", f.oblName(fmt.Sprintf("%s:inv%d#%d.init", fname, li.ordinal, inv.Ord)), g, t, inv.Src, inv.Tags, token.NoPos)
		}
	}
	// havoc
	ns := st.clone()
	writes := f.loopWrites(li)
	li.gh = e.freshConst(fmt.Sprintf("g_%s_loop%d", f.id, li.ordinal), "Bool")
	li.iterDom = nil
	li.mutexHeaps = nil
	if f.top && f.mods != nil {
		for _, h := range writes {
			if strings.HasPrefix(h, "G$") {
				continue
			}
			ff := f.frameFact(h, f.mods, f.entry, st, f.entry.alloc)
			f.oblige("inv.init", f.oblName(fmt.Sprintf("%s:inv%d#frame[%s].init", fname, li.ordinal, h)), g, ff, "loop frame: only locations in the modifies clause change in heap "+h, nil, token.NoPos)
		}
	}
	for _, h := range writes {
		c := e.freshConst(h, e.heapSort[h])
		ns.heap[h] = c
	}
	// heaps that the body writes only on objects it allocates itself: everything allocated before the loop is unchanged
	{
		old := map[string]bool{}
		for b := range li.body {
			for _, in := range b.Instrs {
				for _, h := range e.instrWritesOld(in, f, li.body) {
					old[h] = true
				}
			}
		}
		for _, h := range writes {
			if !old[h] {
				r := e.fresh("r!lf")
				e.assume(fmt.Sprintf("(forall ((%s Int)) (! (=> (< %s %s) (= (select %s %s) (select %s %s))) :pattern ((select %s %s)) :qid loopfresh_%s))", r, r, st.alloc, ns.H(h), r, st.H(h), r, ns.H(h), r, sanitize(h)))
			}
		}
	}
	if e.lockDiscipline {
		// lock discipline: the state of every guarding mutex is the same at each iteration (checked at the back edges)
		for _, h := range writes {
			if e.isMutexHeap(h) {
				e.assume(eq(ns.H(h), st.H(h)))
				li.mutexHeaps = append(li.mutexHeaps, h)
			}
		}
	}
	e.canonAfterHavoc(ns, writes)
	na := e.freshConst("alloc", "Int")
	e.assume(app("<=", st.alloc, na))
	ns.alloc = na
	if f.callerF == nil {
		// exited(N) flags: this loop has not been left yet; what the loops nested in it did in earlier iterations is unknown
		if _, used := e.heapSort[fmt.Sprintf("G$exited$%d", li.ordinal)]; used {
			ns.heap[e.exitedHeap(li.ordinal)] = "false"
		}
		for hb, l2 := range f.loops {
			if l2 != li && li.body[hb] {
				if _, used := e.heapSort[fmt.Sprintf("G$exited$%d", l2.ordinal)]; used {
					ns.heap[e.exitedHeap(l2.ordinal)] = e.freshConst(fmt.Sprintf("G$exited$%d", l2.ordinal), "Bool")
				}
			}
		}
	}
	for r := range st.iters {
		if f.iterInLoop(r, li) {
			c := e.freshConst("iter", sortOfTerm(e, r))
			ns.iters[r] = c
			if mt, ok := r.X.Type().Underlying().(*types.Map); ok {
				md, _ := e.mapHeaps(mt)
				m0 := f.val(r.X).T
				for _, h := range writes {
					if h == md {
						// the ranged map's own domain must not change inside the loop (checked)
						f.oblige("inv.init", f.oblName(fmt.Sprintf("%s:inv%d#iterdom.init", fname, li.ordinal)), g, "true", "", nil, token.NoPos)
						e.assume(implies(gh0(f, li), eq(sel(ns.H(md), m0), sel(st.H(md), m0))))
						li.iterDom = append(li.iterDom, iterDom{md: md, m: m0, pre: sel(st.H(md), m0)})
					}
				}
				k := e.fresh("k!it")
				m := f.val(r.X).T
				e.assume(fmt.Sprintf("(forall ((%s %s)) (! (=> (select %s %s) (select (select %s %s) %s)) :pattern ((select %s %s))))", k, e.sortOf(mt.Key()), c, k, ns.H(md), m, k, c, k))
			}
		}
	}
	gh := li.gh
	e.assume(implies(gh, g))
	for _, instr := range b.Instrs {
		phi, ok := instr.(*ssa.Phi)
		if !ok {
			break
		}
		c := e.declConst(f.name(phi), e.sortOf(phi.Type()))
		f.typeInv(c, phi.Type())
		f.vals[phi] = Val{T: c}
		// automatic bound invariant for counters phi(c0, phi+k)
		f.autoCounterInv(phi, entry[phi], c, b)
	}
	if ls != nil {
		ctx := f.loopCtx(b, ns, gh, nil, li)
		for _, inv := range ls.Invs {
			e.assume(implies(gh, ctx.eval(inv.Expr).T))
		}
	}
	if f.top && f.mods != nil {
		for _, h := range writes {
			e.assume(implies(gh, f.frameFact(h, f.mods, f.entry, ns, f.entry.alloc)))
		}
	}
	li.hdr = ns.clone()
	return ns, gh
}

func (f *Frame) autoCounterInv(phi *ssa.Phi, entry Val, c string, header *ssa.BasicBlock) {
	if f.e.sortOf(phi.Type()) != "Int" {
		return
	}
	// all back-edge incoming values must be phi + positive const (or phi - const for downward)
	dir := 0
	for i, p := range header.Preds {
		if !f.isBackEdge(p, header) {
			continue
		}
		bo, ok := phi.Edges[i].(*ssa.BinOp)
		if !ok || bo.X != ssa.Value(phi) {
			return
		}
		k, ok := bo.Y.(*ssa.Const)
		if !ok || k.Value == nil {
			return
		}
		kv := k.Int64()
		switch {
		case bo.Op == token.ADD && kv > 0, bo.Op == token.SUB && kv < 0:
			if dir == -1 {
				return
			}
			dir = 1
		case bo.Op == token.SUB && kv > 0, bo.Op == token.ADD && kv < 0:
			if dir == 1 {
				return
			}
			dir = -1
		default:
			return
		}
	}
	if dir == 1 {
		f.e.assume(app("<=", entry.T, c))
	} else if dir == -1 {
		f.e.assume(app(">=", entry.T, c))
	}
}

func (f *Frame) closeLoop(from, header *ssa.BasicBlock, st *State) {
	li := f.loops[header]
	ls := f.loopSpec(li)
	eg := f.edge[[2]int{from.Index, header.Index}]
	if f.top && f.mods != nil {
		for _, h := range f.loopWrites(li) {
			if strings.HasPrefix(h, "G$") {
				continue
			}
			ff := f.frameFact(h, f.mods, f.entry, st, f.entry.alloc)
			f.oblige("inv.keep", f.oblName(fmt.Sprintf("%s:inv%d#frame[%s].keep", funcDisplay(f.fn), li.ordinal, h)), eg, ff, "loop frame: only locations in the modifies clause change in heap "+h, nil, token.NoPos)
		}
	}
	for _, h := range li.mutexHeaps {
		f.oblige("lock", f.oblName(fmt.Sprintf("%s:loop%d.lock-state-kept", funcDisplay(f.fn), li.ordinal)), eg, eq(st.H(h), li.hdr.H(h)), "every mutex is in the same state at the end of a loop iteration as at its start", []string{"C11"}, token.NoPos)
	}
	for _, d := range li.iterDom {
		f.oblige("inv.keep", f.oblName(fmt.Sprintf("%s:inv%d#iterdom.keep", funcDisplay(f.fn), li.ordinal)), eg, eq(sel(st.H(d.md), d.m), d.pre), "the domain of the ranged map does not change inside the loop", nil, token.NoPos)
	}
	if ls == nil {
		return
	}
	override := map[*ssa.Phi]Val{}
	pidx := -1
	for i, p := range header.Preds {
		if p == from {
			pidx = i
		}
	}
	for _, instr := range header.Instrs {
		phi, ok := instr.(*ssa.Phi)
		if !ok {
			break
		}
		override[phi] = f.val(phi.Edges[pidx])
	}
	ctx := f.loopCtx(header, st, eg, override, li)
	fname := funcDisplay(f.fn)
	for _, inv := range ls.Invs {
		t := ctx.eval(inv.Expr).T
		f.oblige("inv.keep", f.oblName(fmt.Sprintf("%s:inv%d#%d.keep", fname, li.ordinal, inv.Ord)), eg, t, inv.Src, inv.Tags, token.NoPos)
	}
	if ls.Decr != nil {
		// variant evaluated at header (havoced values) vs at back edge
		c0 := f.loopCtx(header, f.headerState(li), f.guard[header], nil, li)
		v0 := c0.eval(ls.Decr.Expr).T
		v1 := ctx.eval(ls.Decr.Expr).T
		f.oblige("decreases", f.oblName(fmt.Sprintf("%s:loop%d.decreases", fname, li.ordinal)), eg, and(app("<", v1, v0), app("<=", "0", v0)), ls.Decr.Src, ls.Decr.Tags, token.NoPos)
	}
}

func (f *Frame) headerState(li *loopInfo) *State {
	return li.hdr
}

func (f *Frame) oblName(s string) string {
	if f.callerF != nil {
		return s + "@" + funcDisplay(f.stack[0])
	}
	return s
}

// loopWrites returns the (declared) heap names that may be written inside the loop.
func (f *Frame) loopWrites(li *loopInfo) []string {
	set := map[string]bool{}
	for b := range li.body {
		for _, in := range b.Instrs {
			for _, h := range f.e.instrWrites(in, f) {
				set[h] = true
			}
		}
	}
	var out []string
	for h := range set {
		out = append(out, h)
	}
	sort.Strings(out)
	return out
}

// ---------------------------------------------------------------------------
// Next / Slice / TypeAssert

func (f *Frame) execNext(b *ssa.BasicBlock, in *ssa.Next, st *State, g string) {
	e := f.e
	r, ok := in.Iter.(*ssa.Range)
	if !ok {
		fail("%s: next on non-range", f.fn)
	}
	if in.IsString {
		okc := e.declConst(f.name(in)+"$0", "Bool")
		ic := e.declConst(f.name(in)+"$1", "Int")
		rc := e.declConst(f.name(in)+"$2", "Int")
		s := f.val(r.X).T
		e.assume(implies(okc, and(app("<=", "0", ic), app("<", ic, app("str_len", s)), app("<=", "0", rc))))
		f.vals[in] = Val{Tup: []Val{{T: okc}, {T: ic}, {T: rc}}}
		return
	}
	mt := r.X.Type().Underlying().(*types.Map)
	md, mv := e.mapHeaps(mt)
	m := f.val(r.X).T
	ks := e.sortOf(mt.Key())
	okc := e.declConst(f.name(in)+"$0", "Bool")
	kc := e.declConst(f.name(in)+"$1", ks)
	vc := e.declConst(f.name(in)+"$2", e.sortOf(mt.Elem()))
	vis := st.iters[r]
	dom := sel(st.H(md), m)
	e.assume(implies(okc, and(sel(dom, kc), not(sel(vis, kc)), eq(vc, sel(sel(st.H(mv), m), kc)))))
	q := e.fresh("k!nx")
	e.assume(implies(not(okc), fmt.Sprintf("(forall ((%s %s)) (! (=> (select %s %s) (select %s %s)) :pattern ((select %s %s))))", q, ks, dom, q, vis, q, dom, q)))
	nv := e.freshConst("iter", "(Array "+ks+" Bool)")
	e.assume(eq(nv, ite(okc, sto(vis, kc, "true"), vis)))
	st.iters[r] = nv
	f.typeInv(vc, mt.Elem())
	f.vals[in] = Val{Tup: []Val{{T: okc}, {T: kc}, {T: vc}}}
}

func (f *Frame) execSlice(b *ssa.BasicBlock, in *ssa.Slice, st *State, g string) {
	x := f.val(in.X)
	lo := "0"
	if in.Low != nil {
		lo = f.val(in.Low).T
	}
	switch t := in.X.Type().Underlying().(type) {
	case *types.Slice:
		hi := app("s_len", x.T)
		if in.High != nil {
			hi = f.val(in.High).T
		}
		cp := app("s_cap", x.T)
		f.safety(b, "slicebounds", in, and(app("<=", "0", lo), app("<=", lo, hi), app("<=", hi, cp)))
		ncap := app("-", cp, lo)
		if in.Max != nil {
			ncap = app("-", f.val(in.Max).T, lo)
		}
		// slicing a nil slice stays nil
		f.define(in, ite(eq(app("s_arr", x.T), "0"), "nil_slice", app("mk_slice", app("s_arr", x.T), app("+", app("s_off", x.T), lo), app("-", hi, lo), ncap)))
	case *types.Basic: // string
		hi := app("str_len", x.T)
		if in.High != nil {
			hi = f.val(in.High).T
		}
		f.safety(b, "slicebounds", in, and(app("<=", "0", lo), app("<=", lo, hi), app("<=", hi, app("str_len", x.T))))
		f.define(in, app("str_sub", x.T, lo, hi))
	case *types.Pointer:
		arr := t.Elem().Underlying().(*types.Array)
		n := itoa(int(arr.Len()))
		hi := n
		if in.High != nil {
			hi = f.val(in.High).T
		}
		if x.LV != nil {
			fail("%s: slicing an embedded array is unsupported", f.fn)
		}
		f.safety(b, "slicebounds", in, and(app("<=", "0", lo), app("<=", lo, hi), app("<=", hi, n)))
		v := f.define(in, app("mk_slice", x.T, lo, app("-", hi, lo), app("-", n, lo)))
		if in.Low == nil && in.High == nil {
			v.KLen = int(arr.Len()) + 1
			f.vals[in] = v
		}
	default:
		fail("%s: Slice on %s", f.fn, in.X.Type())
	}
}

func (f *Frame) implementers(it *types.Interface) []types.Type {
	var out []types.Type
	for _, t := range f.e.allNamedTypes() {
		for _, c := range []types.Type{t, types.NewPointer(t)} {
			if _, isI := c.Underlying().(*types.Interface); isI {
				continue
			}
			if types.Implements(c, it) {
				out = append(out, c)
				break
			}
		}
	}
	return out
}

func (e *Enc) allNamedTypes() []types.Type {
	if e.namedCache != nil {
		return e.namedCache
	}
	var out []types.Type
	for _, p := range e.prog.AllPackages() {
		if !strings.HasPrefix(p.Pkg.Path(), modulePath) {
			continue
		}
		var names []string
		for n := range p.Members {
			names = append(names, n)
		}
		sort.Strings(names)
		for _, n := range names {
			if t, ok := p.Members[n].(*ssa.Type); ok {
				out = append(out, t.Type())
			}
		}
	}
	e.namedCache = out
	return out
}

func (f *Frame) execTypeAssert(b *ssa.BasicBlock, in *ssa.TypeAssert, st *State, g string) {
	e := f.e
	x := f.val(in.X)
	var okT, valT string
	if it, isI := in.AssertedType.Underlying().(*types.Interface); isI {
		// interface-to-interface: ok iff dynamic type implements it
		if it.NumMethods() == 0 {
			okT = not(eq(app("i_tag", x.T), "0"))
		} else {
			imps := f.implementers(it)
			okc := e.freshConst("implok", "Bool")
			// closed world inside the module; foreign dynamic types: unknown
			var any []string
			for _, t := range imps {
				any = append(any, eq(app("i_tag", x.T), itoa(e.tagOf(t))))
			}
			e.assume(implies(or(any...), okc))
			e.assume(implies(eq(app("i_tag", x.T), "0"), not(okc)))
			for k, tn := range e.tags {
				_ = k
				t := e.tagTypes[tn-1]
				if _, isI := t.Underlying().(*types.Interface); isI {
					continue
				}
				if !types.Implements(t, it) {
					e.assume(implies(eq(app("i_tag", x.T), itoa(tn)), not(okc)))
				}
			}
			okT = okc
		}
		valT = x.T
	} else {
		okT = eq(app("i_tag", x.T), itoa(e.tagOf(in.AssertedType)))
		valT = e.unbox(in.AssertedType, app("i_val", x.T))
	}
	if in.CommaOk {
		vc := e.declConst(f.name(in)+"$0", e.sortOf(in.AssertedType))
		oc := e.declConst(f.name(in)+"$1", "Bool")
		e.assume(eq(oc, okT))
		e.assume(eq(vc, ite(oc, valT, e.zero(in.AssertedType))))
		f.vals[in] = Val{Tup: []Val{{T: vc}, {T: oc}}}
		return
	}
	f.safety(b, "typeassert", in, okT)
	f.define(in, valT)
}

type iterDom struct{ md, m, pre string }

func gh0(f *Frame, li *loopInfo) string { return li.gh }

func (e *Enc) isMutexHeap(h string) bool {
	for _, gs := range e.specs.guards {
		if strings.HasSuffix(h, "_"+gs.Struct+"$"+gs.Mutex) {
			return true
		}
	}
	return false
}
