package main

// Symbolic execution of go/ssa function bodies into a passive, block-guarded
// SMT encoding.

import (
	"fmt"
	"go/token"
	"go/types"
	"sort"
	"strings"

	"golang.org/x/tools/go/ssa"
)

type step struct {
	structT types.Type // field step when non-nil
	field   int
	idx     string     // array index step
	elemT   types.Type // for array step
	arrT    types.Type
}

type LVal struct {
	Heap  string
	Ref   string
	Idx   string // inner index for array heaps ("" otherwise)
	BaseT types.Type
	Path  []step
	T     types.Type
}

type Val struct {
	T    string
	Tup  []Val
	LV   *LVal
	Fn   *ssa.Function
	Bind []Val
	KLen int // statically known slice length (+1), 0 = unknown
}

type State struct {
	heap  map[string]string
	alloc string
	iters map[*ssa.Range]string
	e     *Enc
	base  string
}

func (s *State) clone() *State {
	n := &State{heap: map[string]string{}, alloc: s.alloc, iters: map[*ssa.Range]string{}, e: s.e, base: s.base}
	for k, v := range s.heap {
		n.heap[k] = v
	}
	for k, v := range s.iters {
		n.iters[k] = v
	}
	return n
}

func (s *State) H(name string) string {
	if t, ok := s.heap[name]; ok {
		return t
	}
	t := name + "!" + s.base
	if s.base != "0" && !s.e.declared[t] {
		s.e.declConst(t, s.e.heapSort[name])
		s.e.heapWF(t, s.e.heapSort[name])
		if nd, ok := s.e.nilDom[name]; ok {
			s.e.assume(eq(sel(t, "0"), nd))
		}
		if pi, ok := s.e.mapPair[name]; ok {
			if _, a := s.heap[pi.md]; !a {
				if _, b := s.heap[pi.mv]; !b {
					other := pi.md
					if name == pi.md {
						other = pi.mv
					}
					ot := other + "!" + s.base
					if !s.e.declared[ot] {
						s.e.declConst(ot, s.e.heapSort[other])
						if nd, ok := s.e.nilDom[other]; ok {
							s.e.assume(eq(sel(ot, "0"), nd))
						}
					}
					s.e.assume(s.e.canonical(pi, pi.md+"!"+s.base, pi.mv+"!"+s.base))
				}
			}
		}
	}
	return t
}

// havocAll forgets every heap (also those not referenced yet).
func (s *State) havocAll() {
	s.heap = map[string]string{}
	s.base = s.e.fresh("ep")
}

type retInfo struct {
	guard string
	vals  []Val
	st    *State
	pos   token.Pos
	idx   int
	block *ssa.BasicBlock
}

type deferred struct {
	call  *ssa.CallCommon
	args  []Val
	fnv   Val
	block *ssa.BasicBlock
}

type Frame struct {
	e       *Enc
	fn      *ssa.Function
	id      string
	vals    map[ssa.Value]Val
	guard   map[*ssa.BasicBlock]string
	out     map[*ssa.BasicBlock]*State
	edge    map[[2]int]string
	entry   *State // state at function entry ("old")
	rets    []retInfo
	defers  []deferred
	depth   int
	stack   []*ssa.Function
	top     bool
	spec    *FuncSpec
	params  map[string]Val
	loops   map[*ssa.BasicBlock]*loopInfo
	debug   map[string][]dbgRef
	panics  []retInfo // panic exits (abort outcomes)
	callerF *Frame
	mods    []modEntry
	lockObjs []*LVal
	noInline bool
	ghosts   map[string]string
	curBlock *ssa.BasicBlock
	sites   map[*ssa.Function]int
	siteN   map[string]int
}

type dbgRef struct {
	val   ssa.Value
	block *ssa.BasicBlock
	pos   int
	addr  bool
}

type loopInfo struct {
	header  *ssa.BasicBlock
	body    map[*ssa.BasicBlock]bool
	ordinal int
	pre     *State // state before the loop (at entry edge)
	preG    string
	hdr     *State
	gh      string
	iterDom []iterDom
	mutexHeaps []string
}

var inlineDepthLimit = 6

func (e *Enc) newFrame(fn *ssa.Function, caller *Frame) *Frame {
	f := &Frame{e: e, fn: fn, vals: map[ssa.Value]Val{}, guard: map[*ssa.BasicBlock]string{}, out: map[*ssa.BasicBlock]*State{},
		edge: map[[2]int]string{}, params: map[string]Val{}, debug: map[string][]dbgRef{}, callerF: caller}
	e.uniq++
	f.id = fmt.Sprintf("%s_%d", sanitize(fn.Name()), e.uniq)
	if caller != nil {
		f.depth = caller.depth + 1
		f.stack = append(append([]*ssa.Function{}, caller.stack...), fn)
	} else {
		f.stack = []*ssa.Function{fn}
	}
	return f
}

func (f *Frame) name(v ssa.Value) string {
	return fmt.Sprintf("%s$%s", f.id, sanitize(v.Name()))
}

// define binds an SSA value to a fresh constant equal to term.
func (f *Frame) define(v ssa.Value, term string) Val {
	s := f.e.sortOf(v.Type())
	c := f.e.declConst(f.name(v), s)
	f.e.assume(eq(c, term))
	f.typeInv(c, v.Type())
	val := Val{T: c}
	f.vals[v] = val
	return val
}

func (f *Frame) freshFor(v ssa.Value) Val {
	if tup, ok := v.Type().(*types.Tuple); ok {
		var vs []Val
		for i := 0; i < tup.Len(); i++ {
			c := f.e.declConst(fmt.Sprintf("%s$%d", f.name(v), i), f.e.sortOf(tup.At(i).Type()))
			f.typeInv(c, tup.At(i).Type())
			vs = append(vs, Val{T: c})
		}
		val := Val{Tup: vs}
		f.vals[v] = val
		return val
	}
	c := f.e.declConst(f.name(v), f.e.sortOf(v.Type()))
	f.typeInv(c, v.Type())
	val := Val{T: c}
	f.vals[v] = val
	return val
}

func (f *Frame) typeInv(term string, t types.Type) {
	switch t.Underlying().(type) {
	case *types.Slice:
		f.e.assume(app("slice_ok", term))
	case *types.Interface:
		f.e.assume(app("iface_ok", term))
		if n, ok := t.(*types.Named); ok && n.Obj().Pkg() != nil && strings.HasPrefix(n.Obj().Pkg().Path(), modulePath) {
			// module interfaces (Object, Expression, ...): dynamic values are created with &T{...} only - no typed nil pointers
			f.e.note("assumed: values of the module's interface types never hold a typed nil pointer")
			f.e.assume(implies(not(eq(app("i_tag", term), "0")), not(eq(app("i_val", term), "0"))))
		}
	case *types.Basic:
		b := t.Underlying().(*types.Basic)
		if b.Info()&types.IsUnsigned != 0 {
			f.e.assume(app(">=", term, "0"))
		}
	}
}

func (f *Frame) val(v ssa.Value) Val {
	if x, ok := f.vals[v]; ok {
		return x
	}
	switch c := v.(type) {
	case *ssa.Const:
		return Val{T: f.e.constTerm(c)}
	case *ssa.Global:
		return Val{T: f.e.globalRef(c)}
	case *ssa.Function:
		return Val{T: f.e.funcRef(c), Fn: c}
	case *ssa.Builtin:
		return Val{T: "0"}
	}
	fail("%s: value %s (%T) used before definition", f.fn, v.Name(), v)
	return Val{}
}

func (e *Enc) globalRef(g *ssa.Global) string {
	k := "glob$" + sanitize(g.Pkg.Pkg.Path()) + "$" + sanitize(g.Name())
	if !e.declared[k] {
		e.declared[k] = true
		n := 0
		for d := range e.declared {
			if strings.HasPrefix(d, "glob$") {
				n++
			}
		}
		e.decls = append(e.decls, fmt.Sprintf("(define-fun %s () Int (- %d))", k, n))
	}
	return k
}

func (e *Enc) funcRef(fn *ssa.Function) string {
	k := "func$" + sanitize(fn.String())
	if !e.declared[k] {
		e.declared[k] = true
		n := 0
		for d := range e.declared {
			if strings.HasPrefix(d, "func$") {
				n++
			}
		}
		e.decls = append(e.decls, fmt.Sprintf("(define-fun %s () Int (- %d))", k, 1000000+n))
	}
	return k
}

// ---------------------------------------------------------------------------
// memory access

func (f *Frame) loadLV(st *State, lv *LVal) string {
	base := sel(st.H(lv.Heap), lv.Ref)
	if lv.Idx != "" {
		base = sel(base, lv.Idx)
	}
	for _, s := range lv.Path {
		base = f.applyStep(base, s)
	}
	return base
}

func (f *Frame) applyStep(base string, s step) string {
	if s.structT != nil {
		st, _ := isStruct(s.structT)
		f.e.structSort(s.structT)
		return app(structName(s.structT)+"$"+fieldName(st, s.field), base)
	}
	return sel(base, s.idx)
}

func (f *Frame) updatePath(base string, path []step, v string) string {
	if len(path) == 0 {
		return v
	}
	s := path[0]
	inner := f.updatePath(f.applyStep(base, s), path[1:], v)
	if s.structT != nil {
		st, _ := isStruct(s.structT)
		name := structName(s.structT)
		var fs []string
		for i := 0; i < st.NumFields(); i++ {
			if i == s.field {
				fs = append(fs, inner)
			} else {
				fs = append(fs, app(name+"$"+fieldName(st, i), base))
			}
		}
		return app("mk$"+name, fs...)
	}
	return sto(base, s.idx, inner)
}

func (f *Frame) storeLV(st *State, lv *LVal, v string) {
	h := st.H(lv.Heap)
	cell := sel(h, lv.Ref)
	var newCell string
	if lv.Idx != "" {
		elem := sel(cell, lv.Idx)
		newCell = sto(cell, lv.Idx, f.updatePath(elem, lv.Path, v))
	} else {
		newCell = f.updatePath(cell, lv.Path, v)
	}
	f.setHeap(st, lv.Heap, sto(h, lv.Ref, newCell))
}

func (f *Frame) setHeap(st *State, heap, term string) {
	c := f.e.freshConst(heap, f.e.heapSort[heap])
	f.e.assume(eq(c, term))
	st.heap[heap] = c
}

// lvalOf turns a pointer value into an lvalue for its pointee.
func (f *Frame) lvalOf(p Val, ptrT types.Type) *LVal {
	if p.LV != nil {
		return p.LV
	}
	pt, ok := ptrT.Underlying().(*types.Pointer)
	if !ok {
		fail("lvalOf: not a pointer type %s", ptrT)
	}
	elem := pt.Elem()
	if _, ok := isStruct(elem); ok {
		return nil // whole-struct access handled by caller
	}
	if arr, ok := elem.Underlying().(*types.Array); ok {
		return &LVal{Heap: f.e.arrHeap(arr.Elem()), Ref: p.T, BaseT: elem, T: elem}
	}
	return &LVal{Heap: f.e.ptrHeap(elem), Ref: p.T, BaseT: elem, T: elem}
}

func (f *Frame) load(st *State, p Val, ptrT types.Type) string {
	if p.LV != nil {
		return f.loadLV(st, p.LV)
	}
	elem := ptrT.Underlying().(*types.Pointer).Elem()
	if s, ok := isStruct(elem); ok {
		f.e.structSort(elem)
		if s.NumFields() == 0 {
			return "mk$" + structName(elem)
		}
		var fs []string
		for i := 0; i < s.NumFields(); i++ {
			fs = append(fs, sel(st.H(f.e.fieldHeap(elem, i)), p.T))
		}
		return app("mk$"+structName(elem), fs...)
	}
	return f.loadLV(st, f.lvalOf(p, ptrT))
}

func (f *Frame) store(st *State, p Val, ptrT types.Type, v string) {
	if p.LV != nil {
		f.storeLV(st, p.LV, v)
		return
	}
	elem := ptrT.Underlying().(*types.Pointer).Elem()
	if s, ok := isStruct(elem); ok {
		name := structName(elem)
		f.e.structSort(elem)
		for i := 0; i < s.NumFields(); i++ {
			h := f.e.fieldHeap(elem, i)
			f.setHeap(st, h, sto(st.H(h), p.T, app(name+"$"+fieldName(s, i), v)))
		}
		return
	}
	f.storeLV(st, f.lvalOf(p, ptrT), v)
}

func (f *Frame) allocRef(st *State, hint string) string {
	r := f.e.freshConst("ref_"+hint, "Int")
	f.e.assume(eq(r, st.alloc))
	na := f.e.freshConst("alloc", "Int")
	f.e.assume(eq(na, app("+", st.alloc, "1")))
	st.alloc = na
	return r
}

// ---------------------------------------------------------------------------
// obligations

func (f *Frame) oblige(kind, name string, guard, goal string, clause string, tags []string, pos token.Pos) {
	if goal == "true" {
		// still count trivially true goals as discharged obligations? keep them out.
		return
	}
	if parts := splitAnd(goal); len(parts) > 1 && kind != "vacuity" {
		for i, p := range parts {
			f.oblige(kind, fmt.Sprintf("%s.%d", name, i+1), guard, p, clause, tags, pos)
		}
		return
	}
	o := &Obligation{Name: name, Kind: kind, Func: f.e.curFunc, Guard: guard, Goal: goal, NDecls: len(f.e.decls), NFacts: len(f.e.facts),
		Enc: f.e, Clause: clause, Tags: tags}
	if b := f.curBlock; b != nil && f.callerF == nil {
		o.Cases = f.casesFor(b, 2)
	}
	if pos.IsValid() {
		o.Pos = f.e.prog.Fset.Position(pos).String()
	}
	f.e.obls = append(f.e.obls, o)
}

func (f *Frame) safety(b *ssa.BasicBlock, kind string, ins ssa.Instruction, cond string) {
	if cond == "true" {
		return
	}
	g := f.guard[b]
	if f.e.nopanic && f.callerF == nil {
		// (sites inside inlined callees are the callee's own obligations when it is swept itself)
		src := srcText(f.e.prog.Fset, ins)
		name := fmt.Sprintf("%s:%s[%s]", funcDisplay(f.fn), kind, src)
		if f.callerF != nil {
			name = fmt.Sprintf("%s@%s", name, funcDisplay(f.stack[0]))
		}
		f.oblige("safety", name, g, cond, kind+": "+src, []string{"safety"}, ins.Pos())
	}
	// after the check, execution continues only if cond held
	f.e.assume(implies(g, cond))
}

// ---------------------------------------------------------------------------
// CFG utilities

func (f *Frame) computeLoops() {
	f.loops = map[*ssa.BasicBlock]*loopInfo{}
	var headers []*ssa.BasicBlock
	for _, b := range f.fn.Blocks {
		for _, s := range b.Succs {
			if s.Dominates(b) {
				li := f.loops[s]
				if li == nil {
					li = &loopInfo{header: s, body: map[*ssa.BasicBlock]bool{s: true}}
					f.loops[s] = li
					headers = append(headers, s)
				}
				// natural loop of back edge b->s
				var work []*ssa.BasicBlock
				if !li.body[b] {
					li.body[b] = true
					work = append(work, b)
				}
				for len(work) > 0 {
					x := work[len(work)-1]
					work = work[:len(work)-1]
					for _, p := range x.Preds {
						if !li.body[p] {
							li.body[p] = true
							work = append(work, p)
						}
					}
				}
			}
		}
	}
	sort.Slice(headers, func(i, j int) bool { return loopPos(headers[i]) < loopPos(headers[j]) })
	for i, h := range headers {
		f.loops[h].ordinal = i + 1
	}
}

func loopPos(b *ssa.BasicBlock) int {
	// position of the loop in source order: use the smallest valid instruction pos in header, fall back to block index
	best := token.Pos(0)
	for _, in := range b.Instrs {
		if p := in.Pos(); p.IsValid() && (best == 0 || p < best) {
			best = p
		}
	}
	if best == 0 {
		return 1<<30 + b.Index
	}
	return int(best)
}

func (f *Frame) isBackEdge(from, to *ssa.BasicBlock) bool {
	return to.Dominates(from)
}

func rpo(fn *ssa.Function) []*ssa.BasicBlock {
	seen := map[*ssa.BasicBlock]bool{}
	var order []*ssa.BasicBlock
	var dfs func(b *ssa.BasicBlock)
	dfs = func(b *ssa.BasicBlock) {
		seen[b] = true
		for _, s := range b.Succs {
			if !seen[s] {
				dfs(s)
			}
		}
		order = append(order, b)
	}
	dfs(fn.Blocks[0])
	for i, j := 0, len(order)-1; i < j; i, j = i+1, j-1 {
		order[i], order[j] = order[j], order[i]
	}
	return order
}

// ---------------------------------------------------------------------------
// running a function body

func (f *Frame) collectDebug() {
	for _, b := range f.fn.Blocks {
		for i, in := range b.Instrs {
			if d, ok := in.(*ssa.DebugRef); ok {
				if id, ok := d.Expr.(interface{ String() string }); ok {
					_ = id
				}
				name := exprName(d)
				if name != "" {
					f.debug[name] = append(f.debug[name], dbgRef{val: d.X, block: b, pos: i, addr: d.IsAddr})
				}
			}
		}
	}
}

// run executes the body starting from state st under guard g0; args bound to params.
func (f *Frame) run(st *State, g0 string, args []Val) {
	fn := f.fn
	if len(fn.Blocks) == 0 {
		fail("function %s has no body", fn)
	}
	f.entry = st.clone()
	for i, p := range fn.Params {
		f.vals[p] = args[i]
		f.params[p.Name()] = args[i]
	}
	f.computeLoops()
	f.collectDebug()
	order := rpo(fn)
	for _, b := range order {
		f.execBlock(b, st, g0)
	}
}

func (f *Frame) execBlock(b *ssa.BasicBlock, st0 *State, g0 string) {
	e := f.e
	var st *State
	var g string
	li := f.loops[b]
	if b.Index == 0 {
		st = st0.clone()
		g = e.freshConst("g_"+f.id+"_b0", "Bool")
		e.assume(eq(g, g0))
	} else {
		// merge forward predecessors
		type inc struct {
			p    *ssa.BasicBlock
			pidx int
			eg   string
		}
		var ins []inc
		for pi, p := range b.Preds {
			if f.isBackEdge(p, b) {
				continue
			}
			if _, ok := f.out[p]; !ok {
				continue // unreachable pred
			}
			ins = append(ins, inc{p, pi, f.edge[[2]int{p.Index, b.Index}]})
		}
		if len(ins) == 0 {
			return // unreachable block
		}
		g = e.freshConst(fmt.Sprintf("g_%s_b%d", f.id, b.Index), "Bool")
		var gs []string
		for _, in := range ins {
			gs = append(gs, in.eg)
		}
		e.assume(eq(g, or(gs...)))
		// the state that reaches b from predecessor p; leaving a loop through its header's exit edge sets the loop's
		// "exited" flag (spec builtin exited(N)), leaving it by break/return does not
		outMemo := map[*ssa.BasicBlock]*State{}
		outOf := func(p *ssa.BasicBlock) *State {
			if s, ok := outMemo[p]; ok {
				return s
			}
			s := f.out[p]
			if li, ok := f.loops[p]; ok && !li.body[b] && f.callerF == nil {
				if _, used := e.heapSort[fmt.Sprintf("G$exited$%d", li.ordinal)]; used {
					s = s.clone()
					s.heap[e.exitedHeap(li.ordinal)] = "true"
				}
			}
			outMemo[p] = s
			return s
		}
		// merge state
		st = outOf(ins[0].p).clone()
		if len(ins) > 1 {
			names := map[string]bool{}
			for _, in := range ins {
				for h := range outOf(in.p).heap {
					names[h] = true
				}
			}
			var hs []string
			for h := range names {
				hs = append(hs, h)
			}
			sort.Strings(hs)
			for _, h := range hs {
				same := true
				first := outOf(ins[0].p).H(h)
				for _, in := range ins[1:] {
					if outOf(in.p).H(h) != first {
						same = false
					}
				}
				if same {
					st.heap[h] = first
					continue
				}
				c := e.freshConst(h, e.heapSort[h])
				chain := outOf(ins[len(ins)-1].p).H(h)
				for k := len(ins) - 2; k >= 0; k-- {
					chain = ite(ins[k].eg, outOf(ins[k].p).H(h), chain)
				}
				e.assume(eq(c, chain))
				st.heap[h] = c
			}
			same := true
			for _, in := range ins[1:] {
				if outOf(in.p).alloc != st.alloc {
					same = false
				}
			}
			if !same {
				c := e.freshConst("alloc", "Int")
				chain := outOf(ins[len(ins)-1].p).alloc
				for k := len(ins) - 2; k >= 0; k-- {
					chain = ite(ins[k].eg, outOf(ins[k].p).alloc, chain)
				}
				e.assume(eq(c, chain))
				st.alloc = c
			}
			for r := range st.iters {
				same := true
				for _, in := range ins[1:] {
					if outOf(in.p).iters[r] != st.iters[r] {
						same = false
					}
				}
				if !same {
					c := e.freshConst("iter", sortOfTerm(e, r))
					for _, in := range ins {
						if t, ok := outOf(in.p).iters[r]; ok {
							e.assume(implies(in.eg, eq(c, t)))
						}
					}
					st.iters[r] = c
				}
			}
		}
		// phis (forward edges)
		for _, instr := range b.Instrs {
			phi, ok := instr.(*ssa.Phi)
			if !ok {
				break
			}
			if li != nil {
				continue // handled below
			}
			if len(ins) == 1 {
				f.vals[phi] = f.val(phi.Edges[ins[0].pidx])
				continue
			}
			// identical incoming?
			v0 := f.val(phi.Edges[ins[0].pidx])
			allSame := true
			for _, in := range ins[1:] {
				v := f.val(phi.Edges[in.pidx])
				if v.T != v0.T || v.LV != nil || v0.LV != nil || v.Tup != nil {
					allSame = false
				}
			}
			if allSame && v0.LV == nil {
				f.vals[phi] = v0
				continue
			}
			c := e.declConst(f.name(phi), e.sortOf(phi.Type()))
			chain := ""
			for k := len(ins) - 1; k >= 0; k-- {
				v := f.val(phi.Edges[ins[k].pidx])
				if v.LV != nil {
					fail("%s: phi of interior pointers unsupported (%s)", f.fn, phi.Name())
				}
				if chain == "" {
					chain = v.T
				} else {
					chain = ite(ins[k].eg, v.T, chain)
				}
			}
			e.assume(eq(c, chain))
			f.vals[phi] = Val{T: c}
		}
		if li != nil {
			st, g = f.enterLoop(b, li, st, g, func(phi *ssa.Phi) []Val {
				var vs []Val
				for _, in := range ins {
					vs = append(vs, f.val(phi.Edges[in.pidx]))
				}
				return vs
			}, func() []string {
				var gs []string
				for _, in := range ins {
					gs = append(gs, in.eg)
				}
				return gs
			}())
		}
	}
	f.guard[b] = g
	f.curBlock = b
	for _, instr := range b.Instrs {
		if _, ok := instr.(*ssa.Phi); ok {
			continue
		}
		f.execInstr(b, instr, st, g)
	}
	f.out[b] = st
	// back edges: check invariants
	for _, s := range b.Succs {
		if f.isBackEdge(b, s) {
			f.closeLoop(b, s, st)
		}
	}
}

func sortOfTerm(e *Enc, r *ssa.Range) string {
	switch t := r.X.Type().Underlying().(type) {
	case *types.Map:
		return "(Array " + e.sortOf(t.Key()) + " Bool)"
	}
	return "Int"
}

func (f *Frame) execInstr(b *ssa.BasicBlock, instr ssa.Instruction, st *State, g string) {
	e := f.e
	switch in := instr.(type) {
	case *ssa.DebugRef:
	case *ssa.Alloc:
		elem := in.Type().Underlying().(*types.Pointer).Elem()
		r := f.allocRef(st, in.Name())
		pv := Val{T: r}
		f.vals[in] = pv
		if arr, ok := elem.Underlying().(*types.Array); ok {
			h := e.arrHeap(arr.Elem())
			f.setHeap(st, h, sto(st.H(h), r, e.zero(elem)))
		} else {
			f.store(st, pv, in.Type(), e.zero(elem))
		}
	case *ssa.BinOp:
		f.define(in, f.binop(in, f.val(in.X), f.val(in.Y)))
	case *ssa.UnOp:
		x := f.val(in.X)
		switch in.Op {
		case token.MUL:
			if x.LV == nil {
				f.safety(b, "nil", in, not(eq(x.T, "0")))
			}
			f.define(in, f.load(st, x, in.X.Type()))
		case token.NOT:
			f.define(in, not(x.T))
		case token.SUB:
			if e.sortOf(in.Type()) == "F64" {
				f.define(in, app("f64_neg", x.T))
			} else {
				f.define(in, app("-", x.T))
			}
		case token.XOR:
			e.declRaw("bitnot", "(declare-fun bitnot (Int) Int)")
			f.define(in, app("bitnot", x.T))
		default:
			fail("%s: unsupported unop %s", f.fn, in.Op)
		}
	case *ssa.Call:
		f.execCall(b, in, in.Common(), st, g)
	case *ssa.ChangeInterface:
		f.vals[in] = f.val(in.X)
	case *ssa.ChangeType:
		f.vals[in] = f.val(in.X)
	case *ssa.Convert:
		f.define(in, f.convert(in, f.val(in.X), st))
	case *ssa.MakeInterface:
		x := f.val(in.X)
		if x.LV != nil {
			fail("%s: interior pointer boxed into interface", f.fn)
		}
		f.define(in, app("mk_iface", itoa(e.tagOf(in.X.Type())), e.box(in.X.Type(), x.T)))
	case *ssa.Extract:
		t := f.val(in.Tuple)
		if in.Index >= len(t.Tup) {
			fail("%s: extract from non-tuple", f.fn)
		}
		f.vals[in] = t.Tup[in.Index]
	case *ssa.Field:
		x := f.val(in.X)
		f.define(in, f.applyStep(x.T, step{structT: in.X.Type(), field: in.Field}))
	case *ssa.FieldAddr:
		x := f.val(in.X)
		structT := in.X.Type().Underlying().(*types.Pointer).Elem()
		stt, _ := isStruct(structT)
		ft := stt.Field(in.Field).Type()
		if x.LV != nil {
			lv := *x.LV
			lv.Path = append(append([]step{}, lv.Path...), step{structT: structT, field: in.Field})
			lv.T = ft
			f.vals[in] = Val{T: "INTERIOR", LV: &lv}
		} else {
			f.safety(b, "nil", in, not(eq(x.T, "0")))
			f.vals[in] = Val{T: "INTERIOR", LV: &LVal{Heap: e.fieldHeap(structT, in.Field), Ref: x.T, BaseT: ft, T: ft}}
			if e.lockDiscipline && isCoreShared(in.X.Type()) {
				top := f
				for top.callerF != nil {
					top = top.callerF
				}
				if _, local := in.X.(*ssa.Alloc); !local {
					for k, lo := range top.lockObjs {
						need, why := not(eq(f.loadLV(st, lo), "0")), "a core table reached through the client is accessed only while the client mutex is held"
						if usedForWrite(in) {
							need, why = eq(f.loadLV(st, lo), "1"), "a field of a core table reached through the client is written only while the client mutex is held for writing"
						}
						f.oblige("lock", f.oblName(fmt.Sprintf("%s:table-access[%s]#%d.%d", funcDisplay(f.fn), stt.Field(in.Field).Name(), f.callSiteN("t:"+stt.Field(in.Field).Name()), k+1)), g, need, why, []string{"C11"}, in.Pos())
					}
				}
			}
			if e.lockDiscipline {
				if gs := e.guardOf(in.X.Type()); gs != nil {
					if _, local := in.X.(*ssa.Alloc); !local {
						for _, gf := range gs.Fields {
							if gf == stt.Field(in.Field).Name() {
								cur := f.loadLV(st, f.mutexHeld(f.mutexOf(x, in.X.Type(), gs)))
								need, why := not(eq(cur, "0")), "access to "+gs.Struct+"."+gf+" requires "+gs.Struct+"."+gs.Mutex+" to be held"
								if usedForWrite(in) {
									need, why = eq(cur, "1"), "writing "+gs.Struct+"."+gf+" (or the map it holds) requires "+gs.Struct+"."+gs.Mutex+" to be held for writing"
								}
								f.oblige("lock", f.oblName(fmt.Sprintf("%s:guarded[%s.%s]#%d", funcDisplay(f.fn), gs.Struct, gf, f.callSiteN("g:"+gf))), g, need, why, []string{"C11"}, in.Pos())
							}
						}
					}
				}
			}
		}
	case *ssa.IndexAddr:
		x := f.val(in.X)
		idx := f.val(in.Index).T
		switch t := in.X.Type().Underlying().(type) {
		case *types.Slice:
			f.safety(b, "bounds", in, and(app("<=", "0", idx), app("<", idx, app("s_len", x.T))))
			f.vals[in] = Val{T: "INTERIOR", LV: &LVal{Heap: e.arrHeap(t.Elem()), Ref: app("s_arr", x.T), Idx: app("sidx", app("s_off", x.T), idx), BaseT: t.Elem(), T: t.Elem()}}
		case *types.Pointer:
			arr := t.Elem().Underlying().(*types.Array)
			f.safety(b, "bounds", in, and(app("<=", "0", idx), app("<", idx, itoa(int(arr.Len())))))
			if x.LV != nil {
				lv := *x.LV
				lv.Path = append(append([]step{}, lv.Path...), step{idx: idx, elemT: arr.Elem(), arrT: t.Elem()})
				lv.T = arr.Elem()
				f.vals[in] = Val{T: "INTERIOR", LV: &lv}
			} else {
				f.vals[in] = Val{T: "INTERIOR", LV: &LVal{Heap: e.arrHeap(arr.Elem()), Ref: x.T, Idx: idx, BaseT: arr.Elem(), T: arr.Elem()}}
			}
		default:
			fail("%s: IndexAddr on %s", f.fn, in.X.Type())
		}
	case *ssa.Index:
		x := f.val(in.X)
		idx := f.val(in.Index).T
		switch t := in.X.Type().Underlying().(type) {
		case *types.Array:
			f.safety(b, "bounds", in, and(app("<=", "0", idx), app("<", idx, itoa(int(t.Len())))))
			f.define(in, sel(x.T, idx))
		case *types.Basic: // string
			f.safety(b, "bounds", in, and(app("<=", "0", idx), app("<", idx, app("str_len", x.T))))
			f.define(in, app("str_at", x.T, idx))
		default:
			fail("%s: Index on %s", f.fn, in.X.Type())
		}
	case *ssa.Lookup:
		x := f.val(in.X)
		k := f.val(in.Index).T
		switch t := in.X.Type().Underlying().(type) {
		case *types.Map:
			md, mv := e.mapHeaps(t)
			present := sel(sel(st.H(md), x.T), k)
			v := sel(sel(st.H(mv), x.T), k) // canonical representation: zero value for absent keys
			if in.CommaOk {
				vc := e.declConst(f.name(in)+"$0", e.sortOf(t.Elem()))
				oc := e.declConst(f.name(in)+"$1", "Bool")
				e.assume(eq(vc, v))
				e.assume(eq(oc, present))
				f.vals[in] = Val{Tup: []Val{{T: vc}, {T: oc}}}
			} else {
				f.define(in, v)
			}
		case *types.Basic:
			f.safety(b, "bounds", in, and(app("<=", "0", k), app("<", k, app("str_len", x.T))))
			f.define(in, app("str_at", x.T, k))
		default:
			fail("%s: Lookup on %s", f.fn, in.X.Type())
		}
	case *ssa.MakeClosure:
		fn := in.Fn.(*ssa.Function)
		var bs []Val
		for _, bv := range in.Bindings {
			bs = append(bs, f.val(bv))
		}
		r := f.allocRef(st, "closure")
		f.vals[in] = Val{T: r, Fn: fn, Bind: bs}
	case *ssa.MakeMap:
		r := f.allocRef(st, in.Name())
		md, mv := e.mapHeaps(in.Type())
		mt := in.Type().Underlying().(*types.Map)
		f.setHeap(st, md, sto(st.H(md), r, fmt.Sprintf("((as const (Array %s Bool)) false)", e.sortOf(mt.Key()))))
		f.setHeap(st, mv, sto(st.H(mv), r, e.constArray(e.sortOf(mt.Key()), e.sortOf(mt.Elem()), e.zero(mt.Elem()))))
		f.vals[in] = Val{T: r}
	case *ssa.MakeSlice:
		r := f.allocRef(st, in.Name())
		elem := in.Type().Underlying().(*types.Slice).Elem()
		h := e.arrHeap(elem)
		f.setHeap(st, h, sto(st.H(h), r, e.constArray("Int", e.sortOf(elem), e.zero(elem))))
		ln, cp := f.val(in.Len).T, f.val(in.Cap).T
		f.safety(b, "makeslice", in, and(app("<=", "0", ln), app("<=", ln, cp)))
		f.define(in, app("mk_slice", r, "0", ln, cp))
	case *ssa.MapUpdate:
		m := f.val(in.Map)
		k := f.val(in.Key).T
		v := f.val(in.Value)
		if v.LV != nil {
			fail("%s: interior pointer stored in map", f.fn)
		}
		f.safety(b, "nilmap", in, not(eq(m.T, "0")))
		md, mv := e.mapHeaps(in.Map.Type())
		d0, v0 := sel(st.H(md), m.T), sel(st.H(mv), m.T)
		f.setHeap(st, md, sto(st.H(md), m.T, sto(sel(st.H(md), m.T), k, "true")))
		f.setHeap(st, mv, sto(st.H(mv), m.T, sto(sel(st.H(mv), m.T), k, v.T)))
		if e.declared["seq$Str"] && e.heapSort[mv] == "(Array Int (Array Str Str))" {
			// instance of the bagv insert lemma (seq_Str.smt2), stated at the update site
			b0 := app("bagvS", d0, v0)
			b1 := ite(sel(d0, k), sto(b0, sel(v0, k), app("-", sel(b0, sel(v0, k)), "1")), b0)
			e.assume(eq(app("bagvS", sel(st.H(md), m.T), sel(st.H(mv), m.T)), sto(b1, v.T, app("+", "1", sel(b1, v.T)))))
		}
	case *ssa.Range:
		switch t := in.X.Type().Underlying().(type) {
		case *types.Map:
			st.iters[in] = fmt.Sprintf("((as const (Array %s Bool)) false)", e.sortOf(t.Key()))
		default:
			st.iters[in] = "0"
		}
		f.vals[in] = f.val(in.X)
	case *ssa.Next:
		f.execNext(b, in, st, g)
	case *ssa.Slice:
		f.execSlice(b, in, st, g)
	case *ssa.Store:
		v := f.val(in.Val)
		if v.LV != nil {
			fail("%s: interior pointer stored to memory at %s", f.fn, e.prog.Fset.Position(in.Pos()))
		}
		p := f.val(in.Addr)
		if p.LV == nil {
			f.safety(b, "nil", in, not(eq(p.T, "0")))
		}
		f.store(st, p, in.Addr.Type(), v.T)
	case *ssa.TypeAssert:
		f.execTypeAssert(b, in, st, g)
	case *ssa.If:
		c := f.val(in.Cond).T
		f.edge[[2]int{b.Index, b.Succs[0].Index}] = f.mkEdge(b, 0, and(g, c))
		f.edge[[2]int{b.Index, b.Succs[1].Index}] = f.mkEdge(b, 1, and(g, not(c)))
	case *ssa.Jump:
		f.edge[[2]int{b.Index, b.Succs[0].Index}] = g
	case *ssa.Return:
		var vs []Val
		for _, r := range in.Results {
			vs = append(vs, f.val(r))
		}
		f.rets = append(f.rets, retInfo{guard: g, vals: vs, st: st.clone(), pos: in.Pos(), idx: len(f.rets), block: b})
	case *ssa.Panic:
		f.panics = append(f.panics, retInfo{guard: g, st: st.clone(), pos: in.Pos(), block: b})
		if e.nopanic && f.callerF == nil {
			name := fmt.Sprintf("%s:panic[%s]", funcDisplay(f.fn), srcText(e.prog.Fset, in))
			if f.callerF != nil {
				name = fmt.Sprintf("%s@%s", name, funcDisplay(f.stack[0]))
			}
			f.oblige("safety", name, g, "false", "explicit panic", []string{"safety"}, in.Pos())
		}
	case *ssa.Defer:
		var args []Val
		for _, a := range in.Call.Args {
			args = append(args, f.val(a))
		}
		d := deferred{call: &in.Call, args: args, block: b}
		if !in.Call.IsInvoke() {
			d.fnv = f.val(in.Call.Value)
		} else {
			d.fnv = f.val(in.Call.Value)
		}
		if f.inLoop(b) {
			fail("%s: defer inside loop unsupported", f.fn)
		}
		f.defers = append(f.defers, d)
	case *ssa.RunDefers:
		for i := len(f.defers) - 1; i >= 0; i-- {
			d := f.defers[i]
			if d.block.Dominates(b) {
				f.doCall(b, nil, d.call, d.fnv, d.args, st, g)
			} else {
				// conditionally registered: execute on a copy and merge
				cond := f.guard[d.block]
				st2 := st.clone()
				f.doCall(b, nil, d.call, d.fnv, d.args, st2, and(g, cond))
				f.mergeInto(st, st2, cond)
			}
		}
	default:
		fail("%s: unsupported instruction %T (%s)", f.fn, instr, instr)
	}
}

func (f *Frame) mkEdge(b *ssa.BasicBlock, k int, term string) string {
	c := f.e.freshConst(fmt.Sprintf("e_%s_b%d_%d", f.id, b.Index, k), "Bool")
	f.e.assume(eq(c, term))
	return c
}

func (f *Frame) inLoop(b *ssa.BasicBlock) bool {
	for _, li := range f.loops {
		if li.body[b] {
			return true
		}
	}
	return false
}

// mergeInto: st := cond ? st2 : st
func (f *Frame) mergeInto(st, st2 *State, cond string) {
	for h, t2 := range st2.heap {
		t1 := st.H(h)
		if t1 != t2 {
			c := f.e.freshConst(h, f.e.heapSort[h])
			f.e.assume(eq(c, ite(cond, t2, t1)))
			st.heap[h] = c
		}
	}
	if st.alloc != st2.alloc {
		c := f.e.freshConst("alloc", "Int")
		f.e.assume(eq(c, ite(cond, st2.alloc, st.alloc)))
		st.alloc = c
	}
}

func (f *Frame) binop(in *ssa.BinOp, x, y Val) string {
	e := f.e
	xt := in.X.Type()
	srt := e.sortOf(xt)
	isNilConst := func(v ssa.Value) bool {
		c, ok := v.(*ssa.Const)
		return ok && c.Value == nil
	}
	switch in.Op {
	case token.EQL, token.NEQ:
		var r string
		switch xt.Underlying().(type) {
		case *types.Slice:
			if isNilConst(in.X) {
				r = eq(app("s_arr", y.T), "0")
			} else {
				r = eq(app("s_arr", x.T), "0")
			}
		case *types.Interface:
			if isNilConst(in.X) {
				r = eq(app("i_tag", y.T), "0")
			} else if isNilConst(in.Y) {
				r = eq(app("i_tag", x.T), "0")
			} else {
				r = eq(x.T, y.T)
			}
		default:
			if x.LV != nil || y.LV != nil {
				fail("%s: comparison of interior pointers", f.fn)
			}
			r = eq(x.T, y.T)
		}
		if in.Op == token.NEQ {
			return not(r)
		}
		return r
	}
	switch srt {
	case "Int":
		switch in.Op {
		case token.ADD:
			return app("+", x.T, y.T)
		case token.SUB:
			return app("-", x.T, y.T)
		case token.MUL:
			return app("*", x.T, y.T)
		case token.QUO:
			e.note("integer division modelled as SMT div (floor) - differs from Go for negative operands")
			return app("div", x.T, y.T)
		case token.REM:
			e.note("integer remainder modelled as SMT mod")
			return app("mod", x.T, y.T)
		case token.LSS:
			return app("<", x.T, y.T)
		case token.LEQ:
			return app("<=", x.T, y.T)
		case token.GTR:
			return app(">", x.T, y.T)
		case token.GEQ:
			return app(">=", x.T, y.T)
		case token.AND, token.OR, token.XOR, token.SHL, token.SHR, token.AND_NOT:
			fn := "bitop$" + sanitize(in.Op.String())
			e.declRaw(fn, fmt.Sprintf("(declare-fun %s (Int Int) Int)", fn))
			return app(fn, x.T, y.T)
		}
	case "Str":
		switch in.Op {
		case token.ADD:
			return app("str_cat", x.T, y.T)
		case token.LSS:
			return app("<", app("so", x.T), app("so", y.T))
		case token.LEQ:
			return app("<=", app("so", x.T), app("so", y.T))
		case token.GTR:
			return app(">", app("so", x.T), app("so", y.T))
		case token.GEQ:
			return app(">=", app("so", x.T), app("so", y.T))
		}
	case "F64":
		switch in.Op {
		case token.ADD:
			return app("f64_add", x.T, y.T)
		case token.SUB:
			return app("f64_sub", x.T, y.T)
		case token.MUL:
			return app("f64_mul", x.T, y.T)
		case token.QUO:
			return app("f64_div", x.T, y.T)
		case token.LSS:
			return app("f64_lt", x.T, y.T)
		case token.LEQ:
			return app("f64_le", x.T, y.T)
		case token.GTR:
			return app("f64_lt", y.T, x.T)
		case token.GEQ:
			return app("f64_le", y.T, x.T)
		}
	case "Bool":
		switch in.Op {
		case token.AND:
			return and(x.T, y.T)
		case token.OR:
			return or(x.T, y.T)
		}
	}
	fail("%s: unsupported binop %s on %s", f.fn, in.Op, xt)
	return ""
}

func (f *Frame) convert(in *ssa.Convert, x Val, st *State) string {
	e := f.e
	from, to := in.X.Type().Underlying(), in.Type().Underlying()
	fs, ts := e.sortOf(from), e.sortOf(to)
	switch {
	case fs == ts && fs != "Slice":
		return x.T
	case fs == "Int" && ts == "F64":
		return app("f64_of_int", x.T)
	case fs == "F64" && ts == "Int":
		return app("int_of_f64", x.T)
	case fs == "Int" && ts == "Str":
		return app("str_of_byte", x.T)
	case fs == "Str" && ts == "Slice":
		// []byte(s): fresh array, contents uninterpreted
		e.declRaw("bytes_of_str", "(declare-fun bytes_of_str (Str) Slice)\n(assert (forall ((s Str)) (! (and (slice_ok (bytes_of_str s)) (= (s_len (bytes_of_str s)) (str_len s))) :pattern ((bytes_of_str s)))))")
		e.note("[]byte(string) conversion: contents uninterpreted, result treated as a value (no fresh array identity)")
		return app("bytes_of_str", x.T)
	case fs == "Slice" && ts == "Str":
		e.declRaw("str_of_bytes", "(declare-fun str_of_bytes ((Array Int Int) Int Int) Str)")
		if sl, ok := from.(*types.Slice); ok {
			h := e.arrHeap(sl.Elem())
			_ = h
			e.note("string([]byte) conversion: uninterpreted function of the slice contents")
			return app("str_of_bytes", sel(st.H(h), app("s_arr", x.T)), app("s_off", x.T), app("s_len", x.T))
		}
	case fs == "Slice" && ts == "Slice":
		return x.T
	}
	fail("%s: unsupported conversion %s -> %s", f.fn, in.X.Type(), in.Type())
	return ""
}

// splitAnd splits a term into conjuncts: top-level (and ...), and conjunctions under
// (forall (...) ...), (! ... :pattern ...) and on the right of (=> a ...).
func splitAnd(t string) []string {
	t = strings.TrimSpace(t)
	parts := topArgs(t)
	if parts == nil {
		return []string{t}
	}
	switch parts[0] {
	case "and":
		var out []string
		for _, p := range parts[1:] {
			out = append(out, splitAnd(p)...)
		}
		return out
	case "=>":
		if len(parts) == 3 {
			rs := splitAnd(parts[2])
			if len(rs) > 1 {
				var out []string
				for _, r := range rs {
					out = append(out, "(=> "+parts[1]+" "+r+")")
				}
				return out
			}
		}
	case "forall":
		if len(parts) == 3 {
			body := parts[2]
			bp := topArgs(body)
			pat := ""
			inner := body
			if bp != nil && bp[0] == "!" {
				inner = bp[1]
				pat = " " + strings.Join(bp[2:], " ")
			}
			rs := splitAnd(inner)
			if len(rs) > 1 {
				var out []string
				for _, r := range rs {
					if pat != "" {
						out = append(out, "(forall "+parts[1]+" (! "+r+pat+"))")
					} else {
						out = append(out, "(forall "+parts[1]+" "+r+")")
					}
				}
				return out
			}
		}
	}
	return []string{t}
}

// topArgs parses "(f a b ...)" into [f a b ...]; nil if t is an atom.
func topArgs(t string) []string {
	if len(t) < 2 || t[0] != '(' || t[len(t)-1] != ')' {
		return nil
	}
	body := t[1 : len(t)-1]
	var parts []string
	depth := 0
	start := -1
	for i := 0; i < len(body); i++ {
		c := body[i]
		switch {
		case c == '(':
			if depth == 0 && start < 0 {
				start = i
			}
			depth++
		case c == ')':
			depth--
			if depth == 0 {
				parts = append(parts, body[start:i+1])
				start = -1
			}
		case c == ' ' || c == '\n' || c == '\t':
			if depth == 0 && start >= 0 {
				parts = append(parts, body[start:i])
				start = -1
			}
		default:
			if depth == 0 && start < 0 {
				start = i
			}
		}
	}
	if start >= 0 {
		parts = append(parts, body[start:])
	}
	return parts
}

// casesFor: the forward edges into b (recursively through single-predecessor chains, depth levels of joins)
func (f *Frame) casesFor(b *ssa.BasicBlock, depth int) []string {
	var edges []string
	var preds []*ssa.BasicBlock
	for _, p := range b.Preds {
		if f.isBackEdge(p, b) {
			continue
		}
		if eg, ok := f.edge[[2]int{p.Index, b.Index}]; ok {
			edges = append(edges, eg)
			preds = append(preds, p)
		}
	}
	if len(edges) == 0 {
		return nil
	}
	if len(edges) == 1 {
		if f.loops[b] != nil {
			return nil
		}
		return f.casesFor(preds[0], depth)
	}
	if depth <= 1 {
		return edges
	}
	var out []string
	for i, p := range preds {
		sub := f.casesFor(p, depth-1)
		if len(sub) == 0 {
			out = append(out, edges[i])
			continue
		}
		for _, s := range sub {
			out = append(out, and(edges[i], s))
		}
	}
	return out
}

// isCoreShared: pointer to core.Table or core.index - state that clients reach only through guarded fields
func isCoreShared(t types.Type) bool {
	pt, ok := t.Underlying().(*types.Pointer)
	if !ok {
		return false
	}
	n, ok := pt.Elem().(*types.Named)
	return ok && n.Obj().Pkg() != nil && n.Obj().Pkg().Path() == modulePath+"/core" && (n.Obj().Name() == "Table" || n.Obj().Name() == "index")
}
