#!/usr/bin/env python3
"""Regression over the seeded corpus after engine / contract changes: for every seeded change (selftest/seeds.json) apply the
patch to a scratch copy of /repo and run the checks named for it until one reports a violation (check only - the
confirmation of the change itself is recorded in seeded/<id>/meta.json by run_seeded_all.py). Writes seeded/RECHECK.json.
usage: recheck_seeds.py [name ...]"""
import json, subprocess, os, sys, shutil, tempfile
seeds = json.load(open('/verif/selftest/seeds.json'))
only = sys.argv[1:]
out = {}
if os.path.exists('/verif/seeded/RECHECK.json'):
    out = json.load(open('/verif/seeded/RECHECK.json'))
env = dict(os.environ, GOFLAGS='-mod=mod', GOPROXY='off', GOSUMDB='off', GOTOOLCHAIN='local')
for name, s in seeds.items():
    if only and name not in only:
        continue
    meta = '/verif/seeded/%s/meta.json' % name
    if os.path.exists(meta) and json.load(open(meta)).get('status') == 'superseded':
        continue
    scratch = tempfile.mkdtemp(prefix='govc_recheck_', dir='/tmp')
    try:
        repo = os.path.join(scratch, 'repo')
        subprocess.run(['rsync', '-a', '--exclude', '.git', '/repo/', repo + '/'], check=True)
        r = subprocess.run('patch -p1 -s < /verif/seeded/%s/patch.diff' % name, shell=True, cwd=repo, capture_output=True, text=True)
        if r.returncode != 0:
            out[name] = {'patch_applies': False}
            print(name, 'PATCH-FAILED', flush=True)
            continue
        caught = None
        for p in s['checks']:
            e = dict(env, GOVC_REPO=repo, GOVC_OUT=os.path.join(scratch, 'out'))
            r = subprocess.run('bin/govc check --property %s --tier quick' % p, shell=True, cwd='/verif', env=e, capture_output=True, text=True)
            viol = [l for l in r.stdout.splitlines() if l.startswith('VIOLATION')]
            if r.returncode == 1 and viol:
                caught = {'check': p, 'first': viol[0].split('replays/')[-1]}
                break
        out[name] = {'patch_applies': True, 'caught': caught}
        print(name, 'caught by ' + caught['check'] if caught else 'MISSED', flush=True)
    finally:
        shutil.rmtree(scratch, ignore_errors=True)
    json.dump(out, open('/verif/seeded/RECHECK.json', 'w'), indent=1)
