#!/bin/sh
# Re-records obligations.baseline.json for every registered property on the current (reference) tree.
# Only for use on a tree that is known to be the reference; never called by registered commands.
cd "$(dirname "$0")/.."
for p in $(python3 -c "import json;print(' '.join(c['property_id'] for c in json.load(open('MANIFEST.json'))['checks']))"); do
  bin/govc check --property $p --tier quick --write-baseline 2>&1 | grep -v "^  ok" | grep -v "^KNOWN-FINDING" | tail -3 | cut -c1-200
done
