#!/bin/sh
# Must-stay-quiet corpus: applies each semantics-preserving patch of selftest/harmless/*.diff to a scratch copy of /repo
# (outside /repo and /verif, removed afterwards), confirms the pinned suite still passes, and expects every listed
# check to exit 0 without a VIOLATION line.  usage: selftest/run_harmless.sh <patch-name-pattern> <prop> [<prop> ...]
cd "$(dirname "$0")/.."
pat="$1"; shift
fail=0
for m in selftest/harmless/*${pat}*.diff; do
  [ -f "$m" ] || continue
  scratch=$(mktemp -d /tmp/govc_harm_XXXXXX)
  rsync -a --exclude .git /repo/ "$scratch/repo/"
  if ! (cd "$scratch/repo" && patch -p1 -s < "/verif/$m"); then echo "PATCH-FAILED $m"; fail=1; rm -rf "$scratch"; continue; fi
  if ! (cd "$scratch/repo" && GOFLAGS=-mod=mod GOPROXY=off GOSUMDB=off GOTOOLCHAIN=local go test -vet=off -count=1 ./... > "$scratch/suite.log" 2>&1); then echo "SUITE-FAILS $m: not a harmless change"; fail=1; rm -rf "$scratch"; continue; fi
  for prop in "$@"; do
    GOVC_REPO="$scratch/repo" GOVC_OUT="$scratch/out" bin/govc check --property "$prop" --tier quick > "$scratch/log" 2>&1
    rc=$?
    if [ $rc -eq 0 ] && ! grep -q "^VIOLATION" "$scratch/log"; then
      echo "quiet   $m $prop: $(tail -1 "$scratch/log" | sed 's/^property //')"
    else
      echo "ALARM   $m $prop (exit $rc): $(grep '^VIOLATION\|CONTRACT-NOT' "$scratch/log" | head -2 | sed 's/.*replays.//' | tr '\n' ' ')"
      fail=1
    fi
  done
  rm -rf "$scratch"
done
exit $fail
