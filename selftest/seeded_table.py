#!/usr/bin/env python3
"""Print the markdown table of seeded changes (DESIGN.md section 15.1) from seeded/*/meta.json."""
import json, glob, os
rows = []
for d in sorted(glob.glob('/verif/seeded/*/')):
    m = os.path.join(d, 'meta.json')
    if not os.path.exists(m):
        continue
    j = json.load(open(m))
    name = os.path.basename(d.rstrip('/'))
    if j.get('status') == 'superseded':
        rows.append((name, j['breaks'], 'no longer applies (superseded)', '-', j['summary']))
        continue
    conf = j.get('confirmed', {})
    ok = all(conf.get(k) for k in ('patch_applies', 'builds', 'suite_same_as_baseline', 'demo_passes_without_change', 'demo_fails_with_change'))
    caught = ', '.join(j.get('caught_by', [])) or '**missed**'
    first = ''
    for c in j.get('caught_by', [])[:1]:
        f = j['checks'][c]['first']
        if f:
            first = f[0].split('/')[-1].replace('.replay.txt no-failing-input-found', '')
    rows.append((name, j['breaks'], 'yes' if ok else 'NO: %s' % conf, caught, first))
print('| seeded change | breaks | confirmed | caught by | first failed obligation |')
print('|---|---|---|---|---|')
for r in rows:
    print('| %s | %s | %s | %s | `%s` |' % r)
