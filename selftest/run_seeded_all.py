#!/usr/bin/env python3
"""Confirm every seeded change of /verif/seeded against the current /repo and run the checks named for it
(selftest/seeds.json); writes seeded/<id>/meta.json and seeded/RESULTS.json. Scratch copies live under /tmp and are removed."""
import json, subprocess, os, sys
seeds = json.load(open('/verif/selftest/seeds.json'))
only = sys.argv[1:]
results = {}
if os.path.exists('/verif/seeded/RESULTS.json'):
    results = json.load(open('/verif/seeded/RESULTS.json'))
for name, s in seeds.items():
    if only and name not in only:
        continue
    cmd = ['python3', '/verif/selftest/seeded.py', name, s['pkg'], '--props', ','.join(s['checks'])]
    out = subprocess.run(cmd, capture_output=True, text=True, cwd='/verif').stdout
    try:
        r = json.loads(out[out.index('{'):])
    except Exception as e:
        r = {'error': out[-500:]}
    caught = [k[6:] for k, v in r.items() if k.startswith('check_') and v.get('exit') == 1 and v.get('violations', 0) > 0]
    meta = {'breaks': s['breaks'], 'summary': s['summary'], 'needs': s['needs'], 'demo_package': s['pkg'],
            'confirmed': {k: r.get(k) for k in ('patch_applies', 'builds', 'suite_same_as_baseline', 'demo_passes_without_change', 'demo_fails_with_change')},
            'ran': ['python3 selftest/seeded.py %s %s --props %s   (scratch copy of /repo under /tmp: go build ./..., go test -vet=off -count=1 ./..., the demo as zz_seeded_demo_test.go, then bin/govc check --property <id> with GOVC_REPO pointing at the copy)' % (name, s['pkg'], ','.join(s['checks']))],
            'checks': {k[6:]: {'exit': v.get('exit'), 'violations': v.get('violations'), 'first': v.get('first', [])[:2], 'summary': v.get('summary')} for k, v in r.items() if k.startswith('check_')},
            'caught_by': caught}
    json.dump(meta, open('/verif/seeded/%s/meta.json' % name, 'w'), indent=1)
    results[name] = {'breaks': s['breaks'], 'confirmed': all(v for v in meta['confirmed'].values()) if all(x is not None for x in meta['confirmed'].values()) else False, 'caught_by': caught}
    json.dump(results, open('/verif/seeded/RESULTS.json', 'w'), indent=1)
    print(name, results[name], flush=True)
