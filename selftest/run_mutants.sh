#!/bin/sh
# Must-fail corpus: applies each patch of selftest/mutants/<prop>_*.diff to a scratch copy of /repo
# (outside /repo and /verif, removed afterwards) and expects the property's check to exit 1.
# usage: selftest/run_mutants.sh [pattern]
cd "$(dirname "$0")/.."
pat="${1:-}"
fail=0
for m in selftest/mutants/*${pat}*.diff; do
  [ -f "$m" ] || continue
  prop=$(basename "$m" | cut -d_ -f1)
  scratch=$(mktemp -d /tmp/govc_mut_XXXXXX)
  rsync -a --exclude .git /repo/ "$scratch/repo/"
  if ! (cd "$scratch/repo" && patch -p1 -s < "/verif/$m"); then echo "PATCH-FAILED $m"; fail=1; rm -rf "$scratch"; continue; fi
  GOVC_REPO="$scratch/repo" GOVC_OUT="$scratch/out" bin/govc check --property "$prop" --tier quick > "$scratch/log" 2>&1
  rc=$?
  if [ $rc -eq 1 ] && grep -q "^VIOLATION property=$prop" "$scratch/log"; then
    echo "caught  $m: $(grep -c '^VIOLATION' "$scratch/log") violation(s); first: $(grep '^VIOLATION' "$scratch/log" | head -1 | sed 's/.*replays.//')"
  else
    echo "MISSED  $m (exit $rc): $(tail -1 "$scratch/log")"
    fail=1
  fi
  rm -rf "$scratch"
done
exit $fail
