#!/usr/bin/env python3
"""Confirm a seeded change (patch applies, builds, suite unchanged, demo fails with / passes without)
and run property checks against it - always on a scratch copy of /repo outside /repo and /verif.
usage: seeded.py <seeded-dir-name> <demo-package-dir> [--props C01,C03] [--no-confirm]"""
import subprocess, sys, os, shutil, tempfile, json, re
ENV = dict(os.environ, GOFLAGS='-mod=mod', GOPROXY='off', GOSUMDB='off', GOTOOLCHAIN='local')
def sh(cmd, cwd, env=ENV, timeout=1800):
    r = subprocess.run(cmd, shell=True, cwd=cwd, env=env, capture_output=True, text=True, timeout=timeout)
    return r.returncode, r.stdout + r.stderr
def fails(out):
    return sorted(set(re.findall(r'^--- FAIL: (\S+)', out, re.M)))
def main():
    name, pkg = sys.argv[1], sys.argv[2]
    props = []
    confirm = '--no-confirm' not in sys.argv
    if '--props' in sys.argv:
        props = sys.argv[sys.argv.index('--props') + 1].split(',')
    d = os.path.join('/verif/seeded', name)
    scratch = tempfile.mkdtemp(prefix='govc_seed_', dir='/tmp')
    try:
        repo = os.path.join(scratch, 'repo')
        subprocess.run(['rsync', '-a', '--exclude', '.git', '/repo/', repo + '/'], check=True)
        res = {'name': name}
        demo = os.path.join(repo, pkg, 'zz_seeded_demo_test.go')
        if confirm:
            shutil.copy(os.path.join(d, 'demo_test.go.txt'), demo)
            rc, out = sh("go test -vet=off -count=1 -run 'TestSeededDemo$' ./%s" % pkg, repo)
            res['demo_passes_without_change'] = (rc == 0)
            os.remove(demo)
            rc, out = sh('go test -vet=off -count=1 ./...', repo)
            base = fails(out)
        rc, out = sh('patch -p1 -s < %s' % os.path.join(d, 'patch.diff'), repo)
        res['patch_applies'] = (rc == 0)
        if rc != 0:
            res['patch_output'] = out[-500:]
        if confirm and rc == 0:
            rc, out = sh('go build ./...', repo)
            res['builds'] = (rc == 0)
            rc, out = sh('go test -vet=off -count=1 ./...', repo)
            res['suite_same_as_baseline'] = (fails(out) == base)
            res['suite_failures'] = fails(out)
            shutil.copy(os.path.join(d, 'demo_test.go.txt'), demo)
            rc, out = sh("go test -vet=off -count=1 -run 'TestSeededDemo$' ./%s" % pkg, repo)
            res['demo_fails_with_change'] = (rc != 0)
            os.remove(demo)
        for p in props:
            env = dict(ENV, GOVC_REPO=repo, GOVC_OUT=os.path.join(scratch, 'out'))
            rc, out = sh('bin/govc check --property %s --tier quick' % p, '/verif', env)
            viol = [l for l in out.splitlines() if l.startswith('VIOLATION')]
            res['check_' + p] = {'exit': rc, 'violations': len(viol), 'first': [v.split('replays/')[-1] for v in viol[:4]], 'summary': out.strip().splitlines()[-1] if out.strip() else ''}
        print(json.dumps(res, indent=1))
    finally:
        shutil.rmtree(scratch, ignore_errors=True)
main()
